"""Engine A: run one timed program on a fresh virtual loop (DESIGN.md 2.4)."""
import asyncio
import gc
from asyncio import events, runners

from .vloop import SoloWorld, VLoop, IdleForever, HorizonReached, set_world, EPS


class Run:
    """Outcome of one execution on the virtual loop."""
    __slots__ = ('result', 'error', 'hang', 'shutdown_hang', 'horizon', 'world', 'end_time',
                 'pending_at_end')

    def __init__(self):
        self.result = None
        self.error = None          # exception escaping main()
        self.hang = False          # IdleForever while main() was pending
        self.shutdown_hang = False # IdleForever inside the stock shutdown sequence
        self.horizon = False
        self.world = None
        self.end_time = None
        self.pending_at_end = 0


def run_main(main, *, horizon=100000.0, tie=1, shutdown=True, world=None, before=None, after_main=None):
    """Equivalent of asyncio.run(main()) on a VLoop, with hang detection.

    `before(loop)` (optional) runs with the loop installed as current loop but
    not yet running (e.g. to construct objects 'outside a running loop')."""
    r = Run()
    world = world or SoloWorld(horizon=horizon, tie=tie)
    set_world(world)
    r.world = world
    loop = world.new_loop()
    events.set_event_loop(loop)
    try:
        if before is not None:
            before(loop)
        task = loop.create_task(main())
        try:
            r.result = loop.run_until_complete(task)
        except IdleForever:
            r.hang = True
        except HorizonReached:
            r.horizon = True
        except BaseException as e:   # noqa - main() failed
            r.error = e
        r.end_time = world.now
        if after_main is not None:
            after_main(r)
        if shutdown:
            try:
                r.pending_at_end = len(asyncio.all_tasks(loop))
                runners._cancel_all_tasks(loop)
                loop.run_until_complete(loop.shutdown_asyncgens())
            except (IdleForever, HorizonReached):
                r.shutdown_hang = True
    finally:
        events.set_event_loop(None)
        try:
            loop.close()
        except RuntimeError:
            pass
    return r


def weak_orders(k):
    """All assignments of ranks 0..m (surjective onto a prefix) to k items."""
    def rec(i, cur, used):
        if i == k:
            if set(cur) == set(range(used)):
                yield tuple(cur)
            return
        for r in range(min(used + 1, k)):
            cur.append(r)
            yield from rec(i + 1, cur, max(used, r + 1))
            cur.pop()
    # the recursion above only allows introducing ranks in increasing order of
    # first appearance; permute rank labels to get all weak orderings
    import itertools
    seen = set()
    for base in rec(0, [], 0):
        m = max(base) + 1 if base else 0
        for perm in itertools.permutations(range(m)):
            t = tuple(perm[r] for r in base)
            if t not in seen:
                seen.add(t)
                yield t
