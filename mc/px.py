"""Engine C: process-level explorer (DESIGN.md 2.6).

The controller forks 1..4 children per execution. Each child runs a FileLock scenario with a
LINE callback on aiuti/filelock.py and shims for fcntl.flock / time; at every point it reports
to the controller over a pipe and blocks until told to go. The controller is the scheduler
(same choice recording / preemption-bounded DFS as engine B) and has one extra action:
KILL(slot) = SIGKILL + waitpid at a chosen point index of the victim. All locking is the real
kernel's flock across real processes.
"""
import errno
import fcntl as real_fcntl
import os
import select
import signal
import struct
import sys
import time as real_time
import types

E = sys.monitoring.events
TOOL = 4
REP = struct.Struct('<cid')      # kind, int arg, float arg
GO = struct.Struct('<d')         # virtual now


class ChildEnv:
    """Lives in the forked child: reports every point and waits for permission."""

    def __init__(self, slot, go_r, rep_w):
        self.slot, self.go_r, self.rep_w = slot, go_r, rep_w
        self.vnow = 0.0
        self.active = True

    def report(self, kind, iarg=0, farg=0.0):
        os.write(self.rep_w, REP.pack(kind, iarg, farg))
        data = b''
        while len(data) < GO.size:
            chunk = os.read(self.go_r, GO.size - len(data))
            if not chunk:
                os._exit(3)          # controller went away
            data += chunk
        self.vnow = GO.unpack(data)[0]

    # shims -----------------------------------------------------------------
    def flock(self, fd, op):
        if op & real_fcntl.LOCK_UN:
            self.report(b'u')
            real_fcntl.flock(fd, real_fcntl.LOCK_UN)
            return
        self.report(b'l')
        while True:
            try:
                real_fcntl.flock(fd, real_fcntl.LOCK_EX | real_fcntl.LOCK_NB)
                return
            except BlockingIOError:
                if op & real_fcntl.LOCK_NB:
                    raise
                self.report(b'B')     # parked: controller lets us retry after somebody moved

    def time(self):
        return self.vnow

    def sleep(self, d):
        self.report(b'S', 0, float(d))

    def install(self, flmod):
        env = self
        flmod.fcntl = _Proxy(real_fcntl, flock=env.flock)
        import time as real_time
        flmod.time = _Proxy(real_time, time=env.time, monotonic=env.time, perf_counter=env.time, sleep=env.sleep)

        def on_line(code, line):
            if env.active:
                env.report(b'L', line)
        try:
            sys.monitoring.use_tool_id(TOOL, 'verif-px')
        except ValueError:
            pass
        sys.monitoring.register_callback(TOOL, E.LINE, on_line)
        root = os.path.dirname(os.path.realpath(flmod.__file__)) + os.sep
        seen = set()

        def visit(code):
            if id(code) in seen:
                return
            seen.add(id(code))
            if os.path.realpath(code.co_filename).startswith(root):
                sys.monitoring.set_local_events(TOOL, code, E.LINE)
            for c in code.co_consts:
                if isinstance(c, types.CodeType):
                    visit(c)
        for v in list(vars(flmod).values()):
            if isinstance(v, type):
                for m in vars(v).values():
                    f = getattr(m, '__func__', m)
                    if isinstance(f, property):
                        f = f.fget
                    if isinstance(f, types.FunctionType):
                        visit(f.__code__)
                    w = getattr(f, '__wrapped__', None)
                    if isinstance(w, types.FunctionType):
                        visit(w.__code__)
            elif isinstance(v, types.FunctionType):
                visit(v.__code__)


class _Proxy:
    def __init__(self, mod, **over):
        self.__dict__['_mod'] = mod
        self.__dict__.update(over)

    def __getattr__(self, name):
        return getattr(self._mod, name)


class Child:
    __slots__ = ('slot', 'pid', 'go_w', 'rep_r', 'state', 'wake', 'since', 'reports', 'name', 'events', 'last')

    def __init__(self, slot, name):
        self.slot, self.name = slot, name
        self.pid = None
        self.state = 'ready'      # ready | blocked | sleeping | done | dead
        self.wake = None
        self.since = 0
        self.reports = 0
        self.events = []
        self.last = None


class Execution:
    def __init__(self):
        self.choices = []
        self.aborted = None
        self.log = []             # (vnow, slot, kind, arg)
        self.points = 0
        self.stuck = None
        self.victim_reports = 0


def run_processes(flmod, programs, prefix=(), expect=None, kill=None, horizon=50.0, max_steps=5000,
                  inherited=None, on_report=None):
    """programs: list of (name, callable(env, api)) run in forked children. kill = (slot, report_index) or None.
    `api` gives the child scenario the harness hooks: api.enter(), api.exit(), api.result(ok).
    Returns Execution."""
    x = Execution()
    kids = []
    for slot, (name, fn) in enumerate(programs):
        c = Child(slot, name)
        go_r, go_w = os.pipe()
        rep_r, rep_w = os.pipe()
        pid = os.fork()
        if pid == 0:
            # ---------------- child
            try:
                os.close(go_w)
                os.close(rep_r)
                for k in kids:
                    os.close(k.go_w)
                    os.close(k.rep_r)
                env = ChildEnv(slot, go_r, rep_w)
                env.install(flmod)
                env.active = False
                env.report(b'R')           # initial point: wait to be scheduled
                env.active = True

                class Api:
                    @staticmethod
                    def enter():
                        env.report(b'E')

                    @staticmethod
                    def exit():
                        env.report(b'X')

                    @staticmethod
                    def result(ok):
                        env.report(b'A', 1 if ok else 0)
                fn(env, Api)
                env.active = False
                os.write(rep_w, REP.pack(b'D', 0, 0.0))
            except BaseException as e:     # noqa
                try:
                    os.write(rep_w, REP.pack(b'F', 0, 0.0))
                    sys.stderr.write(f'child {slot} failed: {e!r}\n')
                except OSError:
                    pass
            finally:
                os._exit(0)
        # ---------------- controller
        os.close(go_r)
        os.close(rep_w)
        c.pid, c.go_w, c.rep_r = pid, go_w, rep_r
        kids.append(c)
        # wait for the initial 'R' so the child is parked before the next fork
        _read_report(c, x, 0.0)
    vnow = 0.0
    progress = 0
    cur = None
    occupancy = []
    steps = 0
    pref = tuple(prefix)

    def finish_kids():
        for c in kids:
            if c.state not in ('done', 'dead'):
                try:
                    os.kill(c.pid, signal.SIGKILL)
                except ProcessLookupError:
                    pass
                os.waitpid(c.pid, 0)
            for fd in (c.go_w, c.rep_r):
                try:
                    os.close(fd)
                except OSError:
                    pass
    try:
        while True:
            if kill is not None and kids[kill[0]].state not in ('dead', 'done') and kids[kill[0]].reports > kill[1]:
                v = kids[kill[0]]
                os.kill(v.pid, signal.SIGKILL)
                os.waitpid(v.pid, 0)
                v.state = 'dead'
                x.log.append((vnow, v.slot, 'KILLED', v.reports))
                if v.slot in occupancy:
                    occupancy.remove(v.slot)
                progress += 1          # its descriptors are gone: parked processes may retry
                if cur is v:
                    cur = None
            live = [c for c in kids if c.state not in ('done', 'dead')]
            if not live:
                break
            cand = [c for c in live if c.state == 'ready' or (c.state == 'blocked' and c.since < progress)]
            if not cand:
                sl = [c for c in live if c.state == 'sleeping']
                if sl:
                    t = min(c.wake for c in sl)
                    if t > horizon:
                        x.aborted = 'horizon'
                        break
                    vnow = max(vnow, t)
                    for c in sl:
                        if c.wake <= vnow + 1e-12:
                            c.state = 'ready'
                    continue
                x.stuck = [(c.slot, c.name, c.state) for c in live]
                x.aborted = 'stuck'
                break
            run_en = cur is not None and cur in cand
            order = ([cur] if run_en else []) + sorted((c for c in cand if c is not cur), key=lambda c: c.slot)
            if len(order) > 1:
                k = len(x.choices)
                if k < len(pref):
                    idx = pref[k]
                    if idx >= len(order) or (expect is not None and k < len(expect) and expect[k] != len(order)):
                        x.aborted = 'divergence'
                        break
                else:
                    idx = 0
                x.choices.append((len(order), idx, run_en))
                c = order[idx]
            else:
                c = order[0]
            cur = c
            steps += 1
            if steps > max_steps:
                x.aborted = 'budget'
                break
            os.write(c.go_w, GO.pack(vnow))
            prev = c.last
            kind, iarg, farg = _read_report(c, x, vnow)
            c.last = kind
            x.points += 1
            if on_report is not None:
                r = on_report(kids, c, kind, iarg)
                if r is not None:
                    x.log.append((vnow, c.slot, 'HOOK', r))
            # `progress` counts events that can free the lock: the step after an unlock report (the unlock
            # itself runs between that report and the next one) and process exits. Only those re-enable a
            # process parked in a blocking flock, otherwise two parked processes would wake each other forever.
            if prev == b'u' or kind in (b'D', b'F'):
                progress += 1
            if kind == b'B':
                c.state, c.since = 'blocked', progress
            elif kind == b'S':
                c.state, c.wake = 'sleeping', vnow + farg
            elif kind in (b'D', b'F'):
                c.state = 'done'
                os.waitpid(c.pid, 0)
                if kind == b'F':
                    x.aborted = x.aborted or 'child_failed'
            else:
                c.state = 'ready'
                if kind == b'E':
                    if occupancy:
                        x.log.append((vnow, c.slot, 'OVERLAP', tuple(occupancy)))
                    occupancy.append(c.slot)
                elif kind == b'X':
                    if c.slot in occupancy:
                        occupancy.remove(c.slot)
    finally:
        finish_kids()
    x.victim_reports = kids[kill[0]].reports if kill else 0
    x.kids = [(c.slot, c.name, c.state, c.reports) for c in kids]
    return x


def _read_report(c, x, vnow, timeout=20.0):
    data = b''
    deadline = real_time.time() + timeout
    while len(data) < REP.size:
        r, _, _ = select.select([c.rep_r], [], [], max(0.0, deadline - real_time.time()))
        if not r:
            raise TimeoutError(f'child {c.slot} ({c.name}) did not report within {timeout}s')
        chunk = os.read(c.rep_r, REP.size - len(data))
        if not chunk:
            return (b'F', 0, 0.0)
        data += chunk
    kind, iarg, farg = REP.unpack(data)
    c.reports += 1
    if kind not in (b'L', b'R'):
        x.log.append((vnow, c.slot, kind.decode(), iarg if kind != b'S' else farg))
    return kind, iarg, farg
