"""Shared plumbing: source selection, parallel map, evidence, verdict output."""
import hashlib
import json
import multiprocessing as mp
import os
import random
import sys
import time
import traceback

VERIF = os.path.dirname(os.path.dirname(os.path.abspath(__file__)))
SRC = os.path.abspath(os.environ.get('AIUTI_SRC', '/repo'))
SEED = int(os.environ.get('VERIF_SEED', '0') or 0)
NPROC = int(os.environ.get('VERIF_NPROC', '0') or 0) or min(16, os.cpu_count() or 4)


def use_source():
    """Put the tree under test first on sys.path and make sure it is used."""
    os.environ.setdefault('AIUTI_VERIF', '1')
    if SRC in sys.path:
        sys.path.remove(SRC)
    sys.path.insert(0, SRC)
    for m in [m for m in sys.modules if m == 'aiuti' or m.startswith('aiuti.')]:
        del sys.modules[m]
    import aiuti
    got = os.path.dirname(os.path.dirname(os.path.abspath(aiuti.__file__)))
    if os.path.realpath(got) != os.path.realpath(SRC):
        raise SystemExit(f'machinery error: aiuti imported from {got}, wanted {SRC}')
    import aiuti.asyncio
    from . import vloop
    vloop.virtualise_clocks(aiuti.asyncio)
    return SRC


def h64(obj):
    """Stable 64-bit hash of a repr-able object."""
    return int.from_bytes(hashlib.blake2b(repr(obj).encode(), digest_size=8).digest(), 'big')


class Stats:
    """Mergeable per-case statistics."""

    def __init__(self):
        self.executions = 0
        self.transitions = 0
        self.sigs = set()        # 64-bit hashes of distinct observation signatures / states
        self.violations = []     # dicts: kind, detail, replay(dict)
        self.samples = []
        self.extra = {}          # summed counters
        self.notes = set()

    def count(self, key, n=1):
        self.extra[key] = self.extra.get(key, 0) + n

    def sig(self, obj):
        self.sigs.add(h64(obj))

    def violation(self, kind, detail, replay):
        if sum(1 for v in self.violations if v['kind'] == kind) < 4:   # cap per kind, never crowd out a kind
            self.violations.append({'kind': kind, 'detail': detail, 'replay': replay})
        self.count('violations_total')
        self.count('viol_' + kind)

    def sample(self, s, cap=3):
        if len(self.samples) < cap:
            self.samples.append(s)

    def merge(self, o):
        self.executions += o.executions
        self.transitions += o.transitions
        self.sigs |= o.sigs
        for v in o.violations:
            if sum(1 for u in self.violations if u['kind'] == v['kind']) < 8:
                self.violations.append(v)
        for s in o.samples:
            if len(self.samples) < 6:
                self.samples.append(s)
        for k, v in o.extra.items():
            if k.startswith('max_'):
                self.extra[k] = max(self.extra.get(k, 0), v)
            else:
                self.extra[k] = self.extra.get(k, 0) + v
        self.notes |= o.notes


def _call(args):
    fn, item = args
    try:
        return ('ok', fn(item))
    except BaseException:
        return ('err', traceback.format_exc())


def pmap(fn, items, nproc=None, chunksize=1, order_seed=None):
    """Run fn over items in forked workers; yields results (unordered).

    VERIF_SEED only permutes the visiting order; coverage is identical."""
    items = list(items)
    rnd = random.Random(SEED if order_seed is None else order_seed)
    rnd.shuffle(items)
    nproc = nproc or NPROC
    if nproc <= 1 or len(items) <= 1:
        for it in items:
            tag, res = _call((fn, it))
            if tag == 'err':
                ERRORS.append(res)
                continue
            yield res
        return
    ctx = mp.get_context('fork')
    with ctx.Pool(nproc) as pool:
        for tag, res in pool.imap_unordered(_call, [(fn, it) for it in items], chunksize):
            if tag == 'err':
                # keep going: violations found by the other work items must still be reported; the
                # error itself makes the run exit 2 unless a violation is reported (see finish())
                ERRORS.append(res)
                if len(ERRORS) > 20:
                    pool.terminate()
                    raise MachineryError(res)
                continue
            yield res


class MachineryError(Exception):
    pass


ERRORS = []


def write_evidence(pid, tier, coverage, wall, nviol, assumptions, level='model_checking'):
    if os.path.realpath(SRC) == os.path.realpath('/repo'):
        path = os.path.join(VERIF, 'evidence', f'{pid}.json')
    else:   # runs against scratch copies (mutants) never touch the committed evidence
        path = os.path.join(os.environ.get('TMPDIR', '/tmp'), 'verif-scratch-evidence', f'{pid}.json')
    os.makedirs(os.path.dirname(path), exist_ok=True)
    doc = {
        'property_id': pid,
        'tier': tier,
        'seed': SEED,
        'level': level,
        'coverage': coverage,
        'assumptions': assumptions,
        'wall_s': round(wall, 3),
        'violations': nviol,
        'source_tree': SRC,
    }
    tmp = path + '.tmp'
    with open(tmp, 'w') as f:
        json.dump(doc, f, indent=1, default=repr)
        f.write('\n')
    os.replace(tmp, path)
    return path


def load_known(pid):
    """Known findings for a property: list of dicts with 'signature'."""
    path = os.path.join(VERIF, 'known_findings.json')
    try:
        doc = json.load(open(path))
    except FileNotFoundError:
        return []
    return [f for f in doc.get('findings', []) if f.get('property') == pid]


def finish(pid, tier, stats, t0, rule, assumptions, exhaustive=True, extra_cov=None,
           min_sigs=2):
    """Write evidence, print the verdict, return the exit code."""
    wall = time.time() - t0
    known = load_known(pid)
    new, seen_known = [], {}
    for v in stats.violations:
        k = next((f for f in known if f['signature'] == v['kind']), None)
        if k is None:
            new.append(v)
        else:
            seen_known.setdefault(k['signature'], (k, v))
    cov = {
        'states': len(stats.sigs),
        'transitions': stats.transitions,
        'traces_validated_against_impl': stats.executions,
        'evaluations': stats.executions,
        'distinct_nontrivial': len(stats.sigs),
        'rule': rule,
        'samples': stats.samples or ['(none recorded)'],
        'exhaustive': bool(exhaustive),
        'counters': dict(sorted(stats.extra.items())),
    }
    if stats.notes:
        cov['notes'] = sorted(stats.notes)
    if extra_cov:
        cov.update(extra_cov)
    write_evidence(pid, tier, cov, wall, len(new), assumptions)
    print(f'[{pid}] tier={tier} seed={SEED} src={SRC} executions={stats.executions} '
          f'transitions={stats.transitions} distinct_signatures={len(stats.sigs)} '
          f'wall={wall:.1f}s counters={dict(sorted(stats.extra.items()))}')
    for sig, (k, v) in seen_known.items():
        print(f'KNOWN-FINDING: property={pid} {k.get("what", sig)}')
    if ERRORS and not new:
        print('machinery error (no violation reported):\n' + ERRORS[0])
        return 2
    if ERRORS:
        print(f'note: {len(ERRORS)} work item(s) ended with a machinery error, first one:\n' + ERRORS[0][-1500:])
    if stats.executions and len(stats.sigs) < min_sigs:
        print(f'machinery error: vacuous exploration ({len(stats.sigs)} distinct signatures)')
        return 2
    rdir = os.path.join(VERIF, 'replays')
    if os.path.isdir(rdir):
        for fn in os.listdir(rdir):
            if fn.startswith(pid + '-'):
                os.unlink(os.path.join(rdir, fn))
    if new:
        new.sort(key=lambda v: len(repr(v['replay'])))   # simplest counterexample first
        os.makedirs(rdir, exist_ok=True)
        picked, kinds = [], set()
        for v in new:                                    # one per distinct kind first
            if v['kind'] not in kinds:
                kinds.add(v['kind'])
                picked.append(v)
        picked += [v for v in new if v not in picked]
        for i, v in enumerate(picked[:6]):
            path = os.path.join(VERIF, 'replays', f'{pid}-{i}.json')
            with open(path, 'w') as f:
                json.dump({'property': pid, 'kind': v['kind'], 'detail': v['detail'],
                           'replay': v['replay']}, f, indent=1, default=repr)
            print(f'VIOLATION property={pid} replay={path}')
            print(f'  kind={v["kind"]} detail={str(v["detail"])[:600]}')
        return 1
    return 0
