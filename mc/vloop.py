"""Virtual-time asyncio event loop (DESIGN.md section 2.1).

`VLoop` is a `BaseEventLoop` whose selector never touches the OS: its
`select(timeout)` delegates to a *world* object that owns the virtual clock.
Everything else (Task, Queue, wait_for, Runner, _cancel_all_tasks ...) is
stock CPython asyncio.

Worlds:
  * `SoloWorld`   - one thread, one or several loops run one after the other.
                    `select(t>0)` advances the clock; `select(None)` raises
                    `IdleForever` (the hang detector).
  * engine B's scheduler (mc/tx.py) implements the same two-method protocol
    (`now`, `select(loop, timeout)`, `notify(loop)`) for several threads.
"""
import asyncio
import heapq
import itertools
import logging
import threading
from asyncio import base_events, events

EPS = 1.0 / 64


class IdleForever(BaseException):
    """The loop has nothing ready and no timer armed: it would block forever."""


class HorizonReached(BaseException):
    """Virtual time passed the horizon given for this execution."""


class _VTimerHandle(events.TimerHandle):
    """Timer handle with a deterministic, explicit tie order."""
    __slots__ = ('_seq',)

    def _key(self):
        return (self._when, self._seq)

    def __lt__(self, other):
        return self._key() < other._key()

    def __le__(self, other):
        return self._key() <= other._key()

    def __gt__(self, other):
        return self._key() > other._key()

    def __ge__(self, other):
        return self._key() >= other._key()


class _Selector:
    def __init__(self, loop):
        self._loop = loop

    def select(self, timeout=None):
        return self._loop._world.select(self._loop, timeout)

    def close(self):
        pass


class SoloWorld:
    """Single-threaded world: time moves only when the loop sleeps."""

    def __init__(self, horizon=100000.0, tie=1):
        self.now = 0.0
        self.horizon = horizon
        self.tie = tie          # +1: equal deadlines fire FIFO, -1: LIFO
        self.idle_hook = None   # optional callable(loop) -> bool (True = retry)
        self.exc_log = []       # loop exception-handler contexts
        # "time creeps": real loops spend time between iterations. When armed with k, the k-th
        # non-blocking poll from now jumps the clock to the next armed timer - i.e. whatever was
        # submitted k iterations ago arrived less than k iterations before that deadline.
        self.creep_in = None

    def select(self, loop, timeout):
        if timeout is None:
            if self.idle_hook is not None and self.idle_hook(loop):
                return []
            raise IdleForever()
        if timeout <= 0 and self.creep_in is not None:
            self.creep_in -= 1
            if self.creep_in <= 0:
                self.creep_in = None
                sched = loop._scheduled
                if sched and sched[0]._when - self.now <= 2 * EPS:     # only a deadline that is imminent
                    self.now = max(self.now, sched[0]._when)
            return []
        if timeout > 0:
            sched = loop._scheduled
            target = self.now + timeout
            if sched and sched[0]._when <= target + 1e-9:
                target = sched[0]._when     # land exactly on the timer
            if target > self.horizon:
                raise HorizonReached()
            if target > self.now:
                self.now = target
        return []

    def notify(self, loop):
        pass

    def new_loop(self):
        return VLoop(self)


class VLoop(base_events.BaseEventLoop):
    def __init__(self, world):
        self._world = world
        super().__init__()
        self._selector = _Selector(self)
        self._woken = False
        self._tseq = itertools.count()
        self._clock_resolution = 1e-9
        self.vname = None
        self.set_exception_handler(self._vexc)
        self.runs = 0            # number of run_forever entries
        self.runners = 0         # concurrent runners (must stay <= 1)
        self.max_runners = 0

    # -- clock / selector -------------------------------------------------
    def time(self):
        return self._world.now

    def _process_events(self, event_list):
        pass

    def _write_to_self(self):
        self._woken = True
        self._world.notify(self)

    def call_at(self, when, callback, *args, context=None):
        if when is None:
            raise TypeError("when cannot be None")
        self._check_closed()
        timer = _VTimerHandle(when, callback, args, self, context)
        dl = getattr(self._world, 'deadlines', None)
        if dl is not None:          # every deadline the code under test (or the harness) ever armed
            dl.append(when)
        timer._seq = self._world.tie * next(self._tseq)
        heapq.heappush(self._scheduled, timer)
        timer._scheduled = True
        return timer

    # -- observation -------------------------------------------------------
    def _vexc(self, loop, context):
        self._world.exc_log.append(context)

    def run_forever(self):
        self.runs += 1
        self.runners += 1
        self.max_runners = max(self.max_runners, self.runners)
        hook = getattr(self._world, 'loop_event', None)
        try:
            if hook:
                hook(self, 'run_begin')
            super().run_forever()
        finally:
            self.runners -= 1
            if hook:
                hook(self, 'run_end')

    def close(self):
        hook = getattr(self._world, 'loop_event', None)
        if hook and not self.is_closed():
            hook(self, 'closing')
        super().close()
        if hook:
            hook(self, 'closed')

    def __repr__(self):
        return f'<VLoop {self.vname or id(self)}>'


class VPolicy(asyncio.DefaultEventLoopPolicy):
    """Policy whose new_event_loop() gives VLoops of the current world."""

    def __init__(self, world_getter):
        super().__init__()
        self._wg = world_getter

    def new_event_loop(self):
        return VLoop(self._wg())


_CURRENT = threading.local()
_GLOBAL_WORLD = [None]


def set_world(world):
    _GLOBAL_WORLD[0] = world


def current_world():
    return _GLOBAL_WORLD[0]


def _world_here():
    """World owning the calling thread: the running VLoop's, else the process-global one."""
    try:
        lp = asyncio.events._get_running_loop()
    except Exception:   # noqa
        lp = None
    w = getattr(lp, '_world', None)
    return w if w is not None else _GLOBAL_WORLD[0]


def virtualise_clocks(mod):
    """A tree under test may start reading clocks directly (`from time import monotonic`, `import time`).
    Rebind such module globals to the virtual clock of the current world, so that executions stay
    deterministic and 'later' keeps meaning virtual time. No-op for trees that only use loop.time()."""
    import time as _t
    import types

    def clock(scale=1.0, real=_t.monotonic):
        def now():
            w = _world_here()
            return real() if w is None else (w.now * scale if scale == 1.0 else int(w.now * scale))
        return now

    def vsleep(d):
        w = _world_here()
        if w is None:
            return _t.sleep(d)
        if hasattr(w, 'sleep'):
            return w.sleep(d)          # engine B: a scheduling point
        w.now += max(d, 0.0)           # engine A: blocks the (only) thread, time passes

    clocks = {'monotonic': clock(), 'time': clock(), 'perf_counter': clock(),
              'monotonic_ns': clock(1e9), 'time_ns': clock(1e9), 'perf_counter_ns': clock(1e9)}
    done = []
    for k, v in list(vars(mod).items()):
        if v is _t:
            ns = types.SimpleNamespace(**{n: getattr(_t, n) for n in dir(_t) if not n.startswith('__')})
            for n, f in clocks.items():
                setattr(ns, n, f)
            ns.sleep = vsleep
            setattr(mod, k, ns)
            done.append(k)
        else:
            for n, f in clocks.items():
                if v is getattr(_t, n):
                    setattr(mod, k, f)
                    done.append(k)
    return done


def install_policy():
    asyncio.set_event_loop_policy(VPolicy(current_world))


def quiet_logging():
    logging.disable(logging.CRITICAL)


def drain_garbage():
    import gc
    gc.collect()


# ---------------------------------------------------------------------------------------------
# asyncio.runners._cancel_all_tasks() cancels tasks in the iteration order of a set (address
# dependent). Own that nondeterminism: creation order, ascending or descending (a world choice).
import re as _re
from asyncio import tasks as _tasks

_real_all_tasks = _tasks.all_tasks
CANCEL_ORDER = {'desc': False}
_hex = _re.compile(r'0x[0-9a-fA-F]+')


def _task_key(t):
    n = t.get_name()
    if n.startswith('Task-') and n[5:].isdigit():
        return (0, int(n[5:]), '')
    return (1, 0, _hex.sub('', n))


def ordered_all_tasks(loop=None):
    return sorted(_real_all_tasks(loop), key=_task_key, reverse=CANCEL_ORDER['desc'])


_tasks.all_tasks = ordered_all_tasks
