"""Seams for aiuti.filelock (DESIGN.md 2.2): scheduler-aware threading/time/fcntl/os namespaces.

One `Env` object is installed into the module globals of aiuti.filelock. It serves both the
sequential engine D (virtual threads chosen by the harness, blocking = 'would block forever')
and the thread engine B (blocking = park in the scheduler), selected by `env.sched`.
"""
import errno
import fcntl as real_fcntl
import os as real_os
import threading as real_threading
import time as real_time
import types


class WouldBlockForever(BaseException):
    """A blocking primitive was entered that nobody can ever release (sequential engine)."""


class Env:
    def __init__(self, sched=None):
        self.sched = sched          # None: engine D (sequential); else engine B scheduler
        self.now = 0.0              # virtual clock for engine D
        self.cur = 0                # current virtual thread (engine D)
        self.open_fds = {}          # fd -> path (opened through the shim and not yet closed)
        self.calls = []             # log of env calls: (name, ok)
        self.fault_at = set()       # indices into the env-call sequence that raise OSError
        self.ncalls = 0
        self.locks = []
        self.blocked_flock = None
        self.release_epoch = 0      # bumped whenever an OS lock may have become free (unlock / close)

    # -- identity / clock ---------------------------------------------------
    def me(self):
        return self.sched.current_id() if self.sched else self.cur

    def time(self):
        return self.sched.now if self.sched else self.now

    def sleep(self, d):
        if self.sched:
            self.sched.sleep(d)
        else:
            self.now += d

    # -- fault injection ----------------------------------------------------
    def _env_call(self, name):
        i = self.ncalls
        self.ncalls += 1
        bad = i in self.fault_at
        self.calls.append((name, not bad))
        if bad:
            raise OSError(errno.EIO, f'injected fault in {name} (env call #{i})')

    # -- os -----------------------------------------------------------------
    def os_open(self, path, flags, mode=0o777):
        if self.sched:
            self.sched.point('os.open')
        self._env_call('open')
        fd = real_os.open(path, flags, mode)
        self.open_fds[fd] = path
        return fd

    def os_close(self, fd):
        if self.sched:
            self.sched.point('os.close')
        if fd not in self.open_fds:
            # not (or no longer) a descriptor of the code under test: EBADF, and the harness's own
            # descriptors stay safe. A number that was re-used by a later open IS in the table, so a
            # stale second close really closes the new owner's descriptor, as in a real process.
            raise OSError(errno.EBADF, 'Bad file descriptor')
        # Linux semantics: the descriptor is gone even when close() reports an error
        real_os.close(fd)
        self.open_fds.pop(fd, None)
        self.release_epoch += 1
        self._env_call('close')

    # -- fcntl ----------------------------------------------------------------
    def flock(self, fd, op):
        if op & real_fcntl.LOCK_UN:
            if self.sched:
                self.sched.point('flock.unlock')
            self._env_call('unlock')
            real_fcntl.flock(fd, real_fcntl.LOCK_UN)
            self.release_epoch += 1
            return
        if self.sched:
            self.sched.point('flock.lock')
        self._env_call('lock')
        while True:
            try:
                real_fcntl.flock(fd, real_fcntl.LOCK_EX | real_fcntl.LOCK_NB)
                return
            except BlockingIOError:
                if op & real_fcntl.LOCK_NB:
                    raise
                if self.sched is None:
                    raise WouldBlockForever('flock(LOCK_EX) on a lock nobody will release')
                # park until somebody unlocks / closes a descriptor, then probe the kernel again
                snap = self.release_epoch
                self.sched.wait_until(lambda: self.release_epoch > snap, None, 'flock')

    # -- module namespaces ----------------------------------------------------
    def namespaces(self):
        env = self
        osns = _Proxy(real_os, open=env.os_open, close=env.os_close)
        fcntlns = _Proxy(real_fcntl, flock=env.flock)
        # everything else of the two modules passes through (get_ident, current_thread, strftime ...)
        timens = _Proxy(real_time, time=env.time, monotonic=env.time, perf_counter=env.time, sleep=env.sleep)
        threadns = _Proxy(real_threading, Lock=lambda: VLock(env), RLock=lambda: VRLock(env))
        return {'os': osns, 'fcntl': fcntlns, 'time': timens, 'threading': threadns}

    def install(self, flmod):
        self._saved = {k: getattr(flmod, k) for k in ('os', 'fcntl', 'time', 'threading')}
        for k, v in self.namespaces().items():
            setattr(flmod, k, v)

    def uninstall(self, flmod):
        for k, v in self._saved.items():
            setattr(flmod, k, v)

    def close_leftovers(self):
        for fd in list(self.open_fds):
            try:
                real_os.close(fd)
            except OSError:
                pass
        self.open_fds.clear()


class _Proxy:
    def __init__(self, mod, **over):
        self.__dict__['_mod'] = mod
        self.__dict__.update(over)

    def __getattr__(self, name):
        return getattr(self._mod, name)


class VLock:
    """threading.Lock stand-in (non-reentrant, no owner check on release, like the real one)."""

    def __init__(self, env):
        self.env = env
        self.locked_by = None
        env.locks.append(self)

    def _take(self):
        self.locked_by = self.env.me()

    def _free(self):
        return self.locked_by is None

    def _free_for(self, me):
        return self.locked_by is None

    def acquire(self, blocking=True, timeout=-1):
        env = self.env
        if not blocking and timeout != -1:
            raise ValueError("can't specify a timeout for a non-blocking call")
        if timeout is not None and timeout < 0 and timeout != -1:
            raise ValueError('timeout value must be positive')
        if env.sched:
            env.sched.point('lock.acquire')
        if self._free():
            self._take()
            return True
        if not blocking:
            return False
        if env.sched:
            me = env.me()      # the predicate is evaluated by whichever thread runs the scheduler
            ok = env.sched.wait_until(lambda: self._free_for(me), None if timeout == -1 else timeout, 'lock')
            if ok:
                self._take()
            return ok
        if timeout == -1:
            raise WouldBlockForever('in-process lock held and never released')
        env.now += timeout
        return False

    def release(self):
        if self.env.sched:
            self.env.sched.point('lock.release')
        if self.locked_by is None:
            raise RuntimeError('release unlocked lock')
        self.locked_by = None
        if self.env.sched:
            self.env.sched.notify_all()

    def locked(self):
        return self.locked_by is not None

    __enter__ = acquire

    def __exit__(self, *a):
        self.release()


class VRLock(VLock):
    def __init__(self, env):
        super().__init__(env)
        self.count = 0

    def _free(self):
        return self.locked_by is None or self.locked_by == self.env.me()

    def _free_for(self, me):
        return self.locked_by is None or self.locked_by == me

    def _take(self):
        self.locked_by = self.env.me()
        self.count += 1

    def release(self):
        if self.env.sched:
            self.env.sched.point('rlock.release')
        if self.locked_by is None or self.locked_by != self.env.me():
            raise RuntimeError('cannot release un-acquired lock')
        self.count -= 1
        if self.count == 0:
            self.locked_by = None
            if self.env.sched:
                self.env.sched.notify_all()


def kernel_lock_free(path):
    """Independent probe of the kernel state: can a brand-new descriptor take the flock?"""
    fd = real_os.open(path, real_os.O_RDWR | real_os.O_CREAT)
    try:
        try:
            real_fcntl.flock(fd, real_fcntl.LOCK_EX | real_fcntl.LOCK_NB)
        except BlockingIOError:
            return False
        real_fcntl.flock(fd, real_fcntl.LOCK_UN)
        return True
    finally:
        real_os.close(fd)


def proc_fds_for(path):
    n = 0
    rp = real_os.path.realpath(path)
    for name in real_os.listdir('/proc/self/fd'):
        try:
            if real_os.readlink(f'/proc/self/fd/{name}') == rp:
                n += 1
        except OSError:
            pass
    return n
