"""Engine B: stateless thread-interleaving explorer with iterative preemption bounding.

Real threading.Threads, one running at a time (per-thread semaphore = baton). Scheduling
points: every LINE event (sys.monitoring) of code under AIUTI_SRC/aiuti, every shim operation
(lock, executor, queue, flock, sleep, VLoop.select, loop life-cycle), plus harness points.
The scheduler also is the *world* of the VLoops (virtual clock; time advances only when no
thread is enabled, to the earliest armed deadline).
"""
import collections
import concurrent.futures
import os
import sys
import threading
import time as _time
import types
import weakref

from . import vloop as _vloop

E = sys.monitoring.events
TOOL = 4
_tls = threading.local()
_installed = {'done': False}


class SchedAbort(BaseException):
    """Raised inside controlled threads to unwind an aborted execution."""


class Divergence(Exception):
    """Replay of a recorded prefix did not reproduce the recorded scheduling points."""


def _on_line(code, line):
    ts = getattr(_tls, 'ts', None)
    if ts is not None and ts.sched.line_points:
        ts.sched.point(line)


def install_monitoring(src_root):
    """Enable LINE events on every code object defined under src_root/aiuti (once per process)."""
    if _installed['done']:
        return
    import aiuti.asyncio, aiuti.filelock, aiuti.itertools, aiuti.parsing   # noqa
    try:
        sys.monitoring.use_tool_id(TOOL, 'verif-tx')
    except ValueError:
        pass
    sys.monitoring.register_callback(TOOL, E.LINE, _on_line)
    root = os.path.join(os.path.realpath(src_root), 'aiuti') + os.sep
    seen = set()

    def visit(code):
        if id(code) in seen:
            return
        seen.add(id(code))
        if os.path.realpath(code.co_filename).startswith(root):
            sys.monitoring.set_local_events(TOOL, code, E.LINE)
        for c in code.co_consts:
            if isinstance(c, types.CodeType):
                visit(c)

    def visit_obj(o, depth=0):
        if isinstance(o, types.FunctionType):
            visit(o.__code__)
        elif isinstance(o, (classmethod, staticmethod)):
            visit_obj(o.__func__)
        elif isinstance(o, property):
            for f in (o.fget, o.fset, o.fdel):
                if f:
                    visit_obj(f)
        elif isinstance(o, type) and depth < 3:
            for v in list(vars(o).values()):
                visit_obj(v, depth + 1)
    for mod in (aiuti.asyncio, aiuti.filelock, aiuti.itertools, aiuti.parsing):
        for v in list(vars(mod).values()):
            if getattr(v, '__module__', None) == mod.__name__ or isinstance(v, types.FunctionType):
                visit_obj(v)
    _installed['done'] = True
    _installed['ncode'] = len(seen)


class TState:
    __slots__ = ('id', 'name', 'sem', 'status', 'pred', 'deadline', 'thread', 'sched', 'result', 'error',
                 'fn', 'wait_label', 'timed_out', 'parent')

    def __init__(self, sched, tid, name, fn):
        self.sched, self.id, self.name, self.fn = sched, tid, name, fn
        self.sem = threading.Semaphore(0)
        self.status = 'runnable'     # runnable | blocked | done
        self.pred = None
        self.deadline = None
        self.thread = None
        self.result = None
        self.error = None
        self.wait_label = None
        self.timed_out = False
        self.parent = None


class Sched:
    """Cooperative scheduler + VLoop world for one execution."""

    def __init__(self, prefix=(), expect=None, horizon=1000.0, budget=20000, tie=1):
        self.now = 0.0
        self.tie = tie
        self.horizon = horizon
        self.budget = budget
        self.threads = []
        self.cur = None
        self.prefix = tuple(prefix)
        self.expect = expect          # recorded n_enabled per prefix position (divergence check)
        self.choices = []             # (n_enabled, chosen, running_enabled)
        self.trace = []               # harness observation log
        self.exc_log = []             # VLoop exception-handler contexts
        self.aborted = None
        self.steps = 0
        self.finished = threading.Event()
        self.progress = 0
        self.lock_holders = {}
        self.points = 0
        self.dbg = None
        self.line_points = True       # False: only shim operations are scheduling points (see C02 'own object')

    # ------------------------------------------------------------------ threads
    def spawn(self, fn, name=None):
        ts = TState(self, len(self.threads), name or f't{len(self.threads)}', fn)
        self.threads.append(ts)
        th = threading.Thread(target=self._body, args=(ts,), daemon=True, name=f'tx-{ts.name}')
        ts.thread = th
        th.start()
        return ts

    def _body(self, ts):
        ts.sem.acquire()
        if self.aborted:
            ts.status = 'done'
            return
        _tls.ts = ts
        try:
            ts.result = ts.fn()
        except SchedAbort:
            pass
        except BaseException as e:   # noqa
            ts.error = e
        finally:
            _tls.ts = None
            ts.status = 'done'
            if not self.aborted:
                try:
                    self._dispatch(ts, leaving=True)
                except SchedAbort:
                    pass

    def current_id(self):
        ts = getattr(_tls, 'ts', None)
        return ts.id if ts is not None else -1

    def me(self):
        return getattr(_tls, 'ts', None)

    def log(self, *ev):
        if self.aborted:
            return
        self.trace.append((self.now, self.current_id()) + ev)

    # ------------------------------------------------------------------ core
    def _is_enabled(self, t):
        if t.status == 'runnable':
            return True
        if t.status == 'blocked':
            if t.pred is not None and t.pred():
                return True
            if t.deadline is not None and self.now >= t.deadline - 1e-12:
                return True
        return False

    def _enabled(self, me):
        en = [t for t in self.threads if t is not me and self._is_enabled(t)]
        if not en and not (me is not None and me.status != 'done' and self._is_enabled(me)):
            # nobody can move: a thread parked in a sleep(0) spin loop simply gets its turn again
            en = [t for t in self.threads if t is not me and t.status == 'blocked' and t.wait_label == 'spin']
            if me is not None and me.status == 'blocked' and me.wait_label == 'spin':
                return [me] + en, True
        if me is not None and me.status != 'done' and self._is_enabled(me):
            return [me] + en, True
        return en, False

    def _abort(self, reason):
        if not self.aborted:
            self.aborted = reason
        for t in self.threads:
            t.sem.release()
        self.finished.set()
        raise SchedAbort(reason)

    def _choose(self, me):
        """Pick the next thread to run (advancing the clock when nobody is enabled)."""
        while True:
            en, run_en = self._enabled(me)
            if en:
                break
            waiting = [t for t in self.threads if t.status == 'blocked' and t.deadline is not None]
            if not waiting:
                if all(t.status == 'done' for t in self.threads):
                    return None
                self._abort('deadlock')
            nxt = min(t.deadline for t in waiting)
            if nxt > self.horizon:
                self._abort('horizon')
            self.now = max(self.now, nxt)
        if len(en) == 1:
            return en[0]
        k = len(self.choices)
        if k < len(self.prefix):
            idx = self.prefix[k]
            if idx >= len(en) or (self.expect is not None and k < len(self.expect) and self.expect[k] != len(en)):
                self.aborted = 'divergence'
                self._abort('divergence')
        else:
            idx = 0
        self.choices.append((len(en), idx, run_en))
        return en[idx]

    def _dispatch(self, me, leaving=False):
        """Current thread `me` gives the scheduler a chance to switch."""
        if self.aborted:
            raise SchedAbort(self.aborted)
        self.steps += 1
        if self.steps > self.budget:
            self._abort('budget')
        nxt = self._choose(me)
        if nxt is None:
            self.finished.set()
            return
        if nxt is me:
            if me.status == 'blocked':
                me.timed_out = not (me.pred is not None and me.pred())
                me.status = 'runnable'
            return
        self.cur = nxt
        if nxt.status == 'blocked':
            nxt.timed_out = not (nxt.pred is not None and nxt.pred())
            nxt.status = 'runnable'
        nxt.sem.release()
        if leaving:
            return
        me.sem.acquire()
        if self.aborted:
            raise SchedAbort(self.aborted)

    # ------------------------------------------------------------------ API for shims / harness
    def point(self, label=None):
        me = getattr(_tls, 'ts', None)
        if me is None:
            return
        self.points += 1
        self.progress += 1
        if self.dbg is not None:
            self.dbg.append((me.id, 'pt', label, self.now, len(self.choices)))
        self._dispatch(me)

    def wait_until(self, pred, timeout=None, label=None):
        """Block the calling thread until pred() or the virtual timeout. -> True iff pred() held."""
        me = getattr(_tls, 'ts', None)
        if me is None:
            raise RuntimeError('wait_until outside a controlled thread')
        if self.aborted:
            raise SchedAbort(self.aborted)
        me.status = 'blocked'
        me.pred = pred
        me.deadline = None if timeout is None else self.now + timeout
        me.wait_label = label
        self.progress += 1
        if self.dbg is not None:
            self.dbg.append((me.id, 'wait', label, self.now, len(self.choices)))
        self._dispatch(me)
        ok = not me.timed_out
        me.pred = None
        me.deadline = None
        return ok

    def sleep(self, d):
        if d <= 0:
            return self.spin()
        self.wait_until(None, d, 'sleep')

    def spin(self):
        """sleep(0) in a spin loop: somebody else must make progress first."""
        snap = self.progress
        self.wait_until(lambda: self.progress > snap + 1, None, 'spin')

    def notify_all(self):
        pass      # predicates are re-evaluated at every decision

    def wait_event(self, label):
        snap = self.progress
        self.wait_until(lambda: self.progress > snap + 1, None, label)

    # ------------------------------------------------------------------ VLoop world protocol
    def select(self, loop, timeout):
        if timeout is not None and timeout <= 0:
            loop._woken = False
            return []
        if loop._woken:
            loop._woken = False
            return []
        if timeout is not None and loop._scheduled:
            when = loop._scheduled[0]._when
            if when <= self.now + timeout + 1e-9:
                timeout = max(0.0, when - self.now)
        self.wait_until(lambda: loop._woken, timeout, 'select')
        loop._woken = False
        return []

    def notify(self, loop):
        pass

    def loop_event(self, loop, what):
        if self.aborted:
            return                  # tear-down of an aborted execution: not part of the history
        self.trace.append((self.now, self.current_id(), 'loop', loop.vname, what))
        if what in ('run_end', 'closed'):
            self.point(what)

    def new_loop(self, name=None):
        lp = _vloop.VLoop(self)
        lp.vname = name
        return lp

    def dispose(self):
        """Break reference cycles (weakref.finalize registry -> shim lock -> scheduler -> closures -> loops)
        so that everything of a finished execution is freed."""
        for t in self.threads:
            t.fn = t.pred = t.thread = t.result = t.error = None
            t.sched = None
        self.threads = []
        self.trace = []
        for k in ('loops', 'keep', 'pool_threads', 'executors'):
            if hasattr(self, k):
                setattr(self, k, None)

    # ------------------------------------------------------------------ controller
    def run(self, wall_timeout=60.0):
        """Start the execution (called from the uncontrolled controller thread)."""
        if not self.threads:
            return
        first = self._choose(None)
        self.cur = first
        first.sem.release()
        if not self.finished.wait(wall_timeout):
            self.aborted = self.aborted or 'wall_timeout'
            for t in self.threads:
                t.sem.release()
        leaked = 0
        for t in self.threads:
            t.thread.join(2.0 if self.aborted else 10.0)
            if t.thread.is_alive():
                leaked += 1
        self.leaked = leaked
        return self.aborted


# ---------------------------------------------------------------------- shims
class TxLock:
    """threading.Lock stand-in."""

    def __init__(self, sched):
        self.sched = sched
        self.owner = None

    def acquire(self, blocking=True, timeout=-1):
        s = self.sched
        s.point('lock.acquire')
        if self.owner is None:
            self.owner = s.current_id()
            return True
        if not blocking:
            return False
        ok = s.wait_until(lambda: self.owner is None, None if timeout in (-1, None) else timeout, 'lock')
        if ok:
            self.owner = s.current_id()
        return ok

    def release(self):
        if self.owner is None:
            raise RuntimeError('release unlocked lock')
        self.owner = None
        self.sched.point('lock.release')

    def locked(self):
        return self.owner is not None

    def __enter__(self):
        self.acquire()
        return True

    def __exit__(self, *a):
        self.release()


class TxRLock:
    """threading.RLock stand-in."""

    def __init__(self, sched):
        self.sched = sched
        self.owner = None
        self.depth = 0

    def acquire(self, blocking=True, timeout=-1):
        s = self.sched
        me = s.current_id()
        s.point('rlock.acquire')
        if self.owner == me:
            self.depth += 1
            return True
        if self.owner is not None:
            if not blocking:
                return False
            if not s.wait_until(lambda: self.owner is None, None if timeout in (-1, None) else timeout, 'rlock'):
                return False
        self.owner, self.depth = me, 1
        return True

    def release(self):
        if self.owner != self.sched.current_id():
            raise RuntimeError('cannot release un-acquired lock')
        self.depth -= 1
        if not self.depth:
            self.owner = None
            self.sched.point('rlock.release')

    def __enter__(self):
        self.acquire()
        return True

    def __exit__(self, *a):
        self.release()


class TxEvent:
    """threading.Event stand-in."""

    def __init__(self, sched):
        self.sched = sched
        self.flag = False

    def is_set(self):
        return self.flag

    def set(self):
        self.flag = True
        self.sched.point('event.set')

    def clear(self):
        self.flag = False

    def wait(self, timeout=None):
        s = self.sched
        s.point('event.wait')
        if self.flag:
            return True
        return bool(s.wait_until(lambda: self.flag, timeout, 'event.wait'))


class TxSemaphore:
    """threading.Semaphore / BoundedSemaphore stand-in."""

    def __init__(self, sched, value=1):
        self.sched = sched
        self.value = value

    def acquire(self, blocking=True, timeout=None):
        s = self.sched
        s.point('sem.acquire')
        if self.value <= 0:
            if not blocking:
                return False
            if not s.wait_until(lambda: self.value > 0, timeout, 'sem'):
                return False
        self.value -= 1
        return True

    def release(self, n=1):
        self.value += n
        self.sched.point('sem.release')

    def __enter__(self):
        self.acquire()
        return True

    def __exit__(self, *a):
        self.release()


class TxCondition:
    """threading.Condition stand-in (notify wakes by generation counter)."""

    def __init__(self, sched, lock=None):
        self.sched = sched
        self.lock = lock if lock is not None else TxRLock(sched)
        self.acquire, self.release = self.lock.acquire, self.lock.release
        self.gen = 0
        self.waiters = []

    def __enter__(self):
        return self.lock.__enter__()

    def __exit__(self, *a):
        return self.lock.__exit__(*a)

    def wait(self, timeout=None):
        s = self.sched
        tok = [False]
        self.waiters.append(tok)
        depth = getattr(self.lock, 'depth', 1)
        for _ in range(depth):
            self.lock.release()
        ok = bool(s.wait_until(lambda: tok[0], timeout, 'cond.wait'))
        if tok in self.waiters:
            self.waiters.remove(tok)
        for _ in range(depth):
            self.lock.acquire()
        return ok

    def wait_for(self, predicate, timeout=None):
        r = predicate()
        while not r:
            if not self.wait(timeout):
                return predicate()
            r = predicate()
        return r

    def notify(self, n=1):
        for tok in self.waiters[:n]:
            tok[0] = True
        del self.waiters[:n]
        self.sched.point('cond.notify')

    def notify_all(self):
        self.notify(len(self.waiters))


class TxThread:
    """threading.Thread stand-in: a scheduler-owned thread."""

    def __init__(self, sched, group=None, target=None, name=None, args=(), kwargs=None, daemon=None):
        self.sched, self.target, self.args, self.kwargs = sched, target, args, kwargs or {}
        self.name, self.daemon, self.ts = name or 'thread', daemon, None

    def run(self):
        if self.target:
            self.target(*self.args, **self.kwargs)

    def start(self):
        s = self.sched
        self.ts = s.spawn(self.run, name=f'{self.name}{len(s.threads)}')
        self.ts.parent = s.current_id()
        s.pool_threads.append(self.ts)
        s.point('thread.start')

    def is_alive(self):
        return self.ts is not None and self.ts.status != 'done'

    def join(self, timeout=None):
        if self.ts is not None and self.ts.status != 'done':
            self.sched.wait_until(lambda: self.ts.status == 'done', timeout, 'thread.join')


def threading_shims(sched):
    """name -> stand-in factory for everything of the threading module a tree may start using."""
    return {
        'Lock': lambda: TxLock(sched),
        'RLock': lambda: TxRLock(sched),
        'Event': lambda: TxEvent(sched),
        'Semaphore': lambda value=1: TxSemaphore(sched, value),
        'BoundedSemaphore': lambda value=1: TxSemaphore(sched, value),
        'Condition': lambda lock=None: TxCondition(sched, lock),
        'Thread': lambda *a, **k: TxThread(sched, *a, **k),
    }


class VFuture(concurrent.futures.Future):
    def __init__(self, sched):
        super().__init__()
        self._sched = sched

    def result(self, timeout=None):
        if not self.done():
            self._sched.wait_until(self.done, timeout, 'future.result')
        else:
            self._sched.point('future.result')
        return super().result(0)

    def exception(self, timeout=None):
        if not self.done():
            self._sched.wait_until(self.done, timeout, 'future.exception')
        return super().exception(0)


class VExecutor:
    """ThreadPoolExecutor stand-in: every submitted callable runs in a scheduler-owned thread."""
    live = None    # set per execution: list of worker TStates

    def __init__(self, max_workers=None, *a, sched=None, **k):
        self.sched = sched or CURRENT['sched']
        self.workers = []
        self.closed = False
        # a real pool's worker threads stay parked (alive) until shutdown() or until the executor object
        # is garbage; observers ask idle_workers() for executors that are still reachable and not shut down
        reg = getattr(self.sched, 'executors', None)
        if reg is not None:
            reg.append(weakref.ref(self))

    def submit(self, fn, *a, **k):
        s = self.sched
        fut = VFuture(s)

        def body():
            try:
                r = fn(*a, **k)
            except SchedAbort:
                raise
            except BaseException as e:   # noqa
                s.point('worker.raise')      # the function has ended, its future is not yet resolved
                fut.set_exception(e)
            else:
                s.point('worker.return')
                fut.set_result(r)
        ts = s.spawn(body, name=f'pool{len(s.threads)}')
        ts.parent = s.current_id()
        self.workers.append(ts)
        s.pool_threads.append(ts)
        s.point('submit')
        return fut

    def shutdown(self, wait=True, **k):
        self.closed = True
        if wait and self.workers:
            self.sched.wait_until(lambda: all(w.status == 'done' for w in self.workers), None, 'pool.shutdown')

    def __enter__(self):
        return self

    def __exit__(self, *a):
        self.shutdown(wait=True)
        return False


def idle_workers(sched, exclude=()):
    """Names of parked worker threads: one per executor that ran something, was never shut down and is
    still referenced (refcount-reachable; gc is disabled during executions)."""
    out = []
    for r in sched.executors or ():
        ex = r()
        if ex is None or ex.closed or not ex.workers or ex in exclude:
            continue
        out.append(f'parked-worker-of-unshut-executor({ex.workers[0].name})')
    return out


class VQueue:
    """queue.Queue stand-in (unbounded)."""

    def __init__(self, maxsize=0):
        self.sched = CURRENT['sched']
        self.d = collections.deque()

    def put_nowait(self, x):
        self.d.append(x)

    put = put_nowait

    def get(self, block=True, timeout=None):
        s = self.sched
        s.point('queue.get')
        if not self.d:
            if not block:
                import queue
                raise queue.Empty
            s.wait_until(lambda: bool(self.d), timeout, 'queue.get')
        return self.d.popleft()

    def get_nowait(self):
        return self.get(False)

    def empty(self):
        return not self.d


CURRENT = {'sched': None}
EXTRA_LOCKS = []
EXTRA_SETS = []
EXTRA_PRIMS = {}
EXTRA_THREADING_MODS = []


def bind_asyncio_seams(aiu, sched):
    """Rebind the module globals of aiuti.asyncio to scheduler-aware shims (fresh per execution)."""
    import queue as real_queue
    CURRENT['sched'] = sched
    sched.pool_threads = []
    sched.executors = []
    aiu.Lock = lambda: TxLock(sched)
    aiu.ThreadPoolExecutor = VExecutor
    aiu.queue = types.SimpleNamespace(Queue=VQueue, Empty=real_queue.Empty)
    aiu.sleep = sched.sleep
    aiu._CROSS_LOOP_POOL = VExecutor(32, sched=sched)
    aiu._LOOP_LOCKS = {}
    aiu._LOOP_LOCKS_CREATE_LOCK = TxLock(sched)
    for name in EXTRA_LOCKS:          # further module-level threading.Lock objects of the tree under test
        if hasattr(aiu, name):
            setattr(aiu, name, TxLock(sched))
    for name in EXTRA_SETS:
        if hasattr(aiu, name):
            setattr(aiu, name, set())
    shims = threading_shims(sched)
    for name, kind in EXTRA_PRIMS.items():      # e.g. `from threading import Event` in the tree under test
        setattr(aiu, name, shims[kind])
    for name in EXTRA_THREADING_MODS:           # `import threading` in the tree under test
        import threading as _th
        ns = types.SimpleNamespace(**{k: getattr(_th, k) for k in dir(_th) if not k.startswith('__')})
        for kind, f in shims.items():
            setattr(ns, kind, f)
        setattr(aiu, name, ns)
    _vloop.set_world(sched)


_ORIG = {}


def save_asyncio_seams(aiu):
    if not _ORIG:
        import threading
        lock_type = type(threading.Lock())
        for k, v in list(vars(aiu).items()):      # any other module-level lock / registry set: per-execution shims
            if isinstance(v, lock_type) and k != '_LOOP_LOCKS_CREATE_LOCK':
                EXTRA_LOCKS.append(k)
            elif isinstance(v, set) and k.startswith('_'):
                EXTRA_SETS.append(k)
            elif v is threading:
                EXTRA_THREADING_MODS.append(k)
            elif k != 'Lock':
                for kind in ('RLock', 'Event', 'Semaphore', 'BoundedSemaphore', 'Condition', 'Thread'):
                    if v is getattr(threading, kind):
                        EXTRA_PRIMS[k] = kind
        for k in ['Lock', 'ThreadPoolExecutor', 'queue', 'sleep', '_CROSS_LOOP_POOL', '_LOOP_LOCKS',
                  '_LOOP_LOCKS_CREATE_LOCK'] + EXTRA_LOCKS + EXTRA_SETS + list(EXTRA_PRIMS) + EXTRA_THREADING_MODS:
            _ORIG[k] = getattr(aiu, k)


def restore_asyncio_seams(aiu):
    for k, v in _ORIG.items():
        setattr(aiu, k, v)


# ---------------------------------------------------------------------- exploration
class Execution:
    __slots__ = ('choices', 'aborted', 'trace', 'sched', 'result', 'leaked')


def preemptions(choices, upto):
    return sum(1 for (n, idx, run_en) in choices[:upto] if idx != 0 and run_en)


def children(choices, start, bound, fbound=None):
    """Alternative prefixes (with their expected branching widths) branching at positions >= start.

    bound  = max number of preemptions (switching away from a thread that could continue);
    fbound = max number of non-default choices at points where the running thread had blocked or ended
             (None = unlimited, the classic CHESS setting; worlds with many threads need a finite value)."""
    out = []
    cost = preemptions(choices, start)
    fcost = sum(1 for (n, idx, run_en) in choices[:start] if idx != 0 and not run_en)
    for i in range(start, len(choices)):
        n, idx, run_en = choices[i]
        for alt in range(1, n):
            c = cost + (1 if run_en else 0)
            f = fcost + (0 if run_en else 1)
            if c <= bound and (fbound is None or f <= fbound):
                out.append((tuple(ch[1] for ch in choices[:i]) + (alt,), tuple(ch[0] for ch in choices[:i + 1])))
        if idx != 0:
            if run_en:
                cost += 1
            else:
                fcost += 1
    return out


def explore(run_one, bound, root=((), ()), on_exec=None, max_execs=None, fbound=None, stop=None):
    """DFS below `root` = (prefix, expected widths). run_one(prefix, expect) -> Execution-like with
    .choices and .aborted. Returns number of executions.

    Cyclic garbage collection is switched off while executions run (finalisers of abandoned
    coroutines execute library code and would add scheduling points at allocation-dependent
    moments) and performed explicitly between executions, in the controller thread."""
    import gc
    gc.disable()
    # The DFS stack can hold 10^5 prefixes: keep them as bytes (invisible to the cyclic collector)
    def enc(item):
        return bytes(item[0]) + b'\xff' + bytes(item[1])

    def dec(b):
        i = b.index(b'\xff')
        return tuple(b[:i]), tuple(b[i + 1:])
    stack = [enc(root)]
    n = 0
    while stack:
        prefix, expect = dec(stack.pop())
        x = run_one(prefix, expect)
        n += 1
        if n % 20 == 0:
            gc.collect()
        if x.aborted == 'divergence':
            raise Divergence(f'prefix {prefix} did not replay (expected widths {expect}, got '
                             f'{[c[0] for c in x.choices]})')
        if on_exec is not None:
            on_exec(prefix, x)
        stack.extend(enc(k) for k in children(x.choices, len(prefix), bound, fbound))
        sch = getattr(x, 'sched', None)
        if sch is not None:
            sch.dispose()
        x = None
        if max_execs is not None and n >= max_execs:
            return n, False
        if stop is not None and stop():       # enough counterexamples from this world: do not dwell on it
            return n, False
    return n, True
