"""Driver shared by C01 / C05 / C06: explores the cachemc worlds with engine B."""
import json
import time

from mc import common, tx
from mc.common import Stats
from . import cachemc as CM

TEXT = {
    'C01': 'single-flight monitor: never two invocations of one key in progress on running loops; nothing '
           'invoked after the first success; normal returns carry the one result',
    'C05': 'termination (deadlock / step budget / horizon detector) and work-conservation: virtual time a caller '
           'spends while no invocation of its key is in progress must be 0, or <= 60 s per hosting loop that died '
           'during its lifetime',
    'C06': 'every caller ends with the value, an exception raised by an invocation its own task performed, or a '
           'cancellation of its own task (own wait_for / own loop shutting down)',
}


def run_item(item):
    from aiuti import asyncio as aiu
    pid, name, w, pb, shard, nshards = item
    tx.install_monitoring(common.SRC)
    tx.save_asyncio_seams(aiu)
    st = Stats()

    def run_one(prefix, expect):
        x = CM.run_world(aiu, w, prefix, expect)
        if x.aborted == 'wall_timeout':
            raise common.MachineryError(f'wall-clock timeout in world {name} prefix {prefix}')
        return x

    def on_exec(prefix, x):
        m = CM.Monitor(x, w)
        st.executions += 1
        st.transitions += x.sched.points
        st.count('scheduling_choices', len(x.choices))
        st.sig((name, m.signature()))
        if x.leaked:
            st.count('leaked_threads', x.leaked)
        if x.aborted:
            st.count('aborted_' + x.aborted)
        if any(c.get('deaths') for c in m.callers.values()):
            st.count('executions_with_recovery_after_loop_death')
        for kind, detail in m.viol[pid]:
            st.violation(kind, f'[world {name}] ' + detail,
                         {'world': name, 'w': w, 'prefix': list(prefix), 'pb': pb})
    import gc
    gc.disable()
    try:
        root = run_one((), None)
        if shard == 0:
            on_exec((), root)
        kids = tx.children(root.choices, 0, pb)
        complete = True
        for i, kid in enumerate(kids):
            if i % nshards == shard:
                n, ok = tx.explore(run_one, pb, root=kid, on_exec=on_exec, stop=lambda: st.extra.get('violations_total', 0) >= 12)
                complete = complete and ok
    except tx.Divergence as e:
        raise common.MachineryError(f'world {name}: {e}')
    finally:
        tx.restore_asyncio_seams(aiu)
    st.count(f'worlds_pb{pb}_shards', 1)
    if shard == 0:
        st.sample({'world': name, 'threads': w['threads'], 'function_script': w['script'], 'cache': w['cache'],
                   'preemption_bound': pb, 'root_schedule_choice_points': len(root.choices)})
    return st


def main(pid, tier):
    t0 = time.time()
    common.use_source()
    items = []
    for name, w, pb in CM.worlds(tier, pid):
        nsh = 8 if pb >= 2 else 2
        items += [(pid, name, w, pb, s, nsh) for s in range(nsh)]
    total = Stats()
    for st in common.pmap(run_item, items):
        total.merge(st)
    nworlds = len({i[1] for i in items})
    return common.finish(
        pid, tier, total, t0,
        rule=(f'{nworlds} worlds (2..4 threads, each its own virtual event loop, life-cycles L0 asyncio.run / L1 '
              'main returns early -> stock shutdown / L2 per-caller wait_for / L3 hand-driven loop abandoned / L4 '
              'stopped from another thread; 1..3 callers per loop; function scripts return/suspend/sleep/raise); '
              'every schedule with <= PB preemptions (PB per world in the samples; line-granular points in aiuti '
              'code + every shim operation + loop stop/close) is executed on the real code; states = distinct '
              '(world, caller outcomes+times, abort reason) signatures; transitions = scheduling points executed. '
              'Oracle: ' + TEXT[pid]),
        assumptions=['one source line of aiuti code and one stdlib call are atomic', 'CPython 3.12 asyncio',
                     'virtual clock advances only when no thread is enabled',
                     'loops are not restarted after stopping with a call pending'])


def replay(pid, path):
    from aiuti import asyncio as aiu
    doc = json.load(open(path))['replay']
    tx.install_monitoring(common.SRC)
    tx.save_asyncio_seams(aiu)
    w = doc['w']
    w['script'] = tuple(w['script'])
    outs = []
    for _ in range(2):
        x = CM.run_world(aiu, w, tuple(doc['prefix']), None)
        m = CM.Monitor(x, w)
        outs.append((m.signature(), [v[0] for v in m.viol[pid]]))
    for ev in x.trace:
        print('  ', ev)
    print('aborted:', x.aborted)
    for v in m.viol[pid]:
        print('PROBLEM', v)
    if outs[0] != outs[1]:
        print('machinery error: replay not deterministic')
        return 2
    return 1 if m.viol[pid] else 0
