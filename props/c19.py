"""C19 - parse_to_dict matches an independent model, splits once, never evaluates code (engine D).

Enumerated: every item list of length 0..N over a grammar of value fragments (literals of
every kind, bare words, calls, attribute access, operators, dunder-import, a tripwire call,
text containing the separator, padded text, empty string) and key fragments, presented as
mapping / pair list / joined strings, for separators of length 1..2, parse_keys on/off, and
custom parse callables that raise. The enumeration is run as ONE chained history per worker
(calls with different parsers interleaved, returned containers mutated after comparison), so
state kept between calls would show; the order of the history is permuted by VERIF_SEED.
"""
import ast
import builtins
import itertools
import json
import sys
import time

from mc import common
from mc.common import Stats

PID = 'C19'


class Trip:
    fired = 0

    def fire(self, *a):
        Trip.fired += 1
        return 'FIRED'


VALUE_FRAGS = [
    '1', '1.5', "'a'", '"b"', '(1, 2)', '[1]', "{'k': 1}", 'None', 'True', 'word', 'f()', 'x.y',
    '1+1', "__import__('os')", 'TRIP.fire()', ' 7', '7 ', '', '-3', '1e3', "b'q'", '{1, 2}', '0x10',
    '1_0', '[', '(1,)', '...', '1 if 1 else 2', 'lambda: 1', '[TRIP.fire()]', '-(-1)', '1j',
]
KEY_FRAGS = ['a', '1', "'a'", '(1, 2)', 'True', '1.0', 'word w', 'TRIP.fire()', '', ' 1']
NONSTR_VALUES = [7, None, (1,), 2.5]


# ---------------------------------------------------------------- independent reference
class NotLiteral(Exception):
    pass


def ref_literal(text):
    """Literal decoder: ast.parse + explicit node whitelist (not ast.literal_eval)."""
    try:
        tree = ast.parse(text.lstrip(' \t'), mode='eval')
    except (SyntaxError, ValueError, MemoryError, RecursionError):
        raise NotLiteral()

    def num(node):
        if isinstance(node, ast.Constant) and type(node.value) in (int, float, complex):
            return node.value
        if isinstance(node, ast.UnaryOp) and isinstance(node.op, (ast.UAdd, ast.USub)) \
                and isinstance(node.operand, ast.Constant) \
                and type(node.operand.value) in (int, float, complex):
            v = node.operand.value       # a signed number is a literal; -(-1) is an expression
            return +v if isinstance(node.op, ast.UAdd) else -v
        raise NotLiteral()

    def walk(node):
        if isinstance(node, ast.Constant):
            return node.value
        if isinstance(node, ast.Tuple):
            return tuple(walk(e) for e in node.elts)
        if isinstance(node, ast.List):
            return [walk(e) for e in node.elts]
        if isinstance(node, ast.Set):
            return {walk(e) for e in node.elts}
        if isinstance(node, ast.Call) and isinstance(node.func, ast.Name) and node.func.id == 'set' \
                and not node.args and not node.keywords:
            return set()
        if isinstance(node, ast.Dict):
            if any(k is None for k in node.keys):
                raise NotLiteral()
            return {walk(k): walk(v) for k, v in zip(node.keys, node.values)}
        if isinstance(node, ast.UnaryOp) and isinstance(node.op, (ast.UAdd, ast.USub)):
            return num(node)
        if isinstance(node, ast.BinOp) and isinstance(node.op, (ast.Add, ast.Sub)):
            left, right = num(node.left), num(node.right)
            if type(left) in (int, float) and type(right) is complex:
                return left + right if isinstance(node.op, ast.Add) else left - right
        raise NotLiteral()
    try:
        return walk(tree.body)
    except (NotLiteral, TypeError):
        raise NotLiteral()


def ref_parse_to_dict(items, sep, parse, parse_keys):
    def tp(x):
        if isinstance(x, str):
            try:
                return parse(x)
            except BaseException:   # noqa
                return x
        return x
    if hasattr(items, 'items'):
        items = list(items.items())
    out = {}
    for it in items:
        if isinstance(it, str):
            i = it.find(sep)
            if i < 0:
                raise ValueError('no separator')
            k, v = it[:i], it[i + len(sep):]
        else:
            k, v = it
        out[tp(k) if parse_keys else k] = tp(v)
    return out


def ref_default(x):
    try:
        return ref_literal(x)
    except NotLiteral:
        raise ValueError(x)


def typed(o):
    """Structure with types, so that 1 / True / 1.0 are distinguished."""
    if isinstance(o, dict):
        return ('dict', tuple((typed(k), typed(v)) for k, v in o.items()))
    if isinstance(o, (list, tuple)):
        return (type(o).__name__, tuple(typed(x) for x in o))
    if isinstance(o, (set, frozenset)):
        return (type(o).__name__, tuple(sorted((typed(x) for x in o), key=repr)))
    return (type(o).__name__, repr(o))


def mutate(o):
    """Scribble on returned mutable containers (detects aliasing between calls)."""
    if isinstance(o, dict):
        for v in list(o.values()):
            mutate(v)
        o['__scribble__'] = 1
    elif isinstance(o, list):
        for v in o:
            mutate(v)
        o.append('__scribble__')
    elif isinstance(o, set):
        o.add('__scribble__')


# ---------------------------------------------------------------- parsers
def p_value_error(x):
    raise ValueError(x)


def p_key_error(x):
    raise KeyError(x)


def p_runtime_error(x):
    raise RuntimeError(x)


def p_upper(x):
    return x.upper()


PARSERS = {'default': None, 'value_error': p_value_error, 'key_error': p_key_error,
           'runtime_error': p_runtime_error, 'upper': p_upper}


def cases(n, tier):
    """Yield (pairs, sep, parser name, parse_keys)."""
    seps = ['=', ':', '::', '==']
    vals = VALUE_FRAGS if n <= 1 else (VALUE_FRAGS[:16] if n == 2 else VALUE_FRAGS[:6])
    keys = KEY_FRAGS if n <= 1 else (KEY_FRAGS[:6] if n == 2 else KEY_FRAGS[:4])
    if tier != 'quick':
        vals = VALUE_FRAGS if n <= 2 else (VALUE_FRAGS[:14] if n == 3 else VALUE_FRAGS[:7])
        keys = KEY_FRAGS if n <= 2 else (KEY_FRAGS[:6] if n == 3 else KEY_FRAGS[:4])
    kv = [(k, v) for k in keys for v in vals]
    for combo in itertools.product(kv, repeat=n):
        for sep in seps:
            for pname in PARSERS:
                if pname != 'default' and (n > 2 or sep != '='):
                    continue
                for pk in (True, False):
                    yield list(combo), sep, pname, pk


def run_history(parse_to_dict, hist, st):
    imports = [0]
    real_import = builtins.__import__

    def counting_import(name, *a, **k):
        if name == 'os' and sys._getframe(1).f_code.co_filename.startswith('<'):
            imports[0] += 1
        return real_import(name, *a, **k)
    builtins.TRIP = Trip()
    builtins.__import__ = counting_import
    try:
        for pairs, sep, pname, pk in hist:
            parser = PARSERS[pname]
            kw = {'sep': sep, 'parse_keys': pk}
            if parser is not None:
                kw['parse'] = parser
            refp = parser or ref_default
            shapes = {'pairs': [tuple(p) for p in pairs]}
            strs = [k + sep + v for k, v in pairs]
            shapes['strings'] = strs
            if len({k for k, _ in pairs}) == len(pairs):
                shapes['mapping'] = dict(pairs)
            # non-string values pass through untouched (by identity)
            if pairs:
                ns = NONSTR_VALUES[len(pairs[0][1]) % len(NONSTR_VALUES)]
                shapes['pairs_nonstr'] = [(pairs[0][0], ns)] + [tuple(p) for p in pairs[1:]]
            results = {}
            for shape, items in shapes.items():
                st.executions += 1
                st.transitions += len(pairs) + 1
                before = Trip.fired, imports[0]
                try:
                    exp = ('ok', ref_parse_to_dict(items, sep, refp, pk))
                except ValueError:
                    exp = ('ValueError',)
                try:
                    got = ('ok', parse_to_dict(items, **kw))
                except ValueError:
                    got = ('ValueError',)
                except BaseException as e:   # noqa
                    got = ('raised', repr(e))
                rp = {'pairs': pairs, 'sep': sep, 'parser': pname, 'parse_keys': pk, 'shape': shape}
                if (Trip.fired, imports[0]) != before:
                    st.violation('code_evaluated', f'tripwire/import fired while parsing {items!r}', rp)
                if got[0] != exp[0]:
                    st.violation('wrong_result', f'items={items!r} got {got!r} expected {exp!r}', rp)
                elif got[0] == 'ok':
                    if typed(got[1]) != typed(exp[1]):
                        st.violation('wrong_result', f'items={items!r} got {got[1]!r} expected {exp[1]!r}', rp)
                    if shape == 'pairs_nonstr' and pairs:
                        ns = shapes['pairs_nonstr'][0][1]
                        if not any(v is ns for v in got[1].values()) and len(got[1]) == len(pairs):
                            st.violation('nonstring_value_not_passed_through', f'{items!r} -> {got[1]!r}', rp)
                    results[shape] = typed(got[1])
                    mutate(got[1])
                st.sig((shape, tuple(map(tuple, pairs)), sep, pname, pk, got[0]))
            # the three shapes agree when no key contains the separator
            if all(sep not in k for k, _ in pairs):
                base = results.get('pairs')
                for shape in ('strings', 'mapping'):
                    if shape in results and base is not None and results[shape] != base:
                        st.violation('shapes_disagree', f'{shape} vs pairs for {pairs!r} sep={sep!r}',
                                     {'pairs': pairs, 'sep': sep, 'parser': pname, 'parse_keys': pk, 'shape': shape})
    finally:
        builtins.__import__ = real_import
        del builtins.TRIP


def run_case(item):
    import random
    from aiuti.parsing import parse_to_dict
    n, chunk, nchunks, tier = item
    st = Stats()
    hist = [c for i, c in enumerate(cases(n, tier)) if i % nchunks == chunk]
    # chained history: interleave so that consecutive calls differ in parser / shape
    random.Random(common.SEED * 1000 + chunk).shuffle(hist)
    run_history(parse_to_dict, hist, st)
    # missing separator, empty input
    for items in (['novalue'], ['a=1', 'b'], [''], []):
        st.executions += 1
        try:
            r = parse_to_dict(items)
            if items:
                st.violation('missing_separator_accepted', f'{items!r} -> {r!r}', {'pairs': items})
            elif r != {}:
                st.violation('wrong_result', f'[] -> {r!r}', {'pairs': items})
        except ValueError:
            pass
    st.sample({'items': n, 'history_length': len(hist), 'example_case': hist[0] if hist else None})
    return st


def main(tier):
    t0 = time.time()
    common.use_source()
    total = Stats()
    plan = []
    for n in (0, 1, 2, 3) if tier == 'quick' else (0, 1, 2, 3, 4):
        nch = {0: 1, 1: 2, 2: 16, 3: 32, 4: 48}[n]
        plan += [(n, c, nch, tier) for c in range(nch)]
    for st in common.pmap(run_case, plan):
        total.merge(st)
    return common.finish(
        PID, tier, total, t0,
        rule=('all item lists of length 0..3 (thorough 4) over value/key fragment grammars x 3 input shapes '
              '(+ non-string value variant) x 4 separators x parse_keys x 5 parsers, executed as chained '
              'histories (returned containers scribbled on after comparison); compared including types with an '
              'independent reference (own split, ast whitelist walker); tripwire object + import counter '
              'detect evaluation'),
        assumptions=['reference literal decoder is an independent whitelist walker over ast.parse'])


def replay(path):
    from aiuti.parsing import parse_to_dict
    doc = json.load(open(path))['replay']
    st = Stats()
    run_history(parse_to_dict, [(doc['pairs'], doc.get('sep', '='), doc.get('parser', 'default'),
                                 doc.get('parse_keys', True))], st)
    for v in st.violations:
        print('PROBLEM', v['kind'], v['detail'])
    if not st.violations:
        print('single call reproduces nothing: the violation needs the chained history (state between calls)')
    return 1 if st.violations else 0
