"""C06 - see props/cachemc.py (worlds, monitor) and props/cache_driver.py (exploration)."""
from . import cache_driver

PID = 'C06'


def main(tier):
    return cache_driver.main(PID, tier)


def replay(path):
    return cache_driver.replay(PID, path)
