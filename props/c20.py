"""C20 - gather_excs / raise_first_exc (engine A, plain bounded-exhaustive enumeration).

Enumerated: every list of k awaitables (k = 0..KMAX), each with an outcome from
{return, Base, Sub(Base), Unrelated, OnlyBase(BaseException)}, every *weak
ordering* of finishing times (all permutations and ties), a base offset deciding
whether the earliest awaitable completes without suspending, a pattern of
awaitable kinds (coroutine / Task / Future), and every `only` of the hierarchy.
"""
import asyncio
import itertools
import time

from mc import common
from mc.common import Stats
from mc.vt import run_main, weak_orders

PID = 'C20'


class Base(Exception):
    pass


class Sub(Base):
    pass


class Unrelated(Exception):
    pass


class OnlyBase(BaseException):
    pass


OUTCOMES = ['ret', Base, Sub, Unrelated, OnlyBase]
ONLYS = [BaseException, Exception, Base, Sub, Unrelated]
KINDS = ['coro', 'task', 'future']
KIND_PATTERNS = {
    'coro': lambda i: 'coro', 'task': lambda i: 'task', 'future': lambda i: 'future',
    'mixed': lambda i: KINDS[i % 3], 'mixed2': lambda i: KINDS[(i + 1) % 3],
}


def build(loop, log, outcomes, delays, kindf):
    """Create the awaitables; returns (aws, excs) with excs[i] the instance or None."""
    aws, excs = [], []
    for i, (oc, d) in enumerate(zip(outcomes, delays)):
        exc = None if oc == 'ret' else oc(f'e{i}')
        excs.append(exc)
        kind = kindf(i)

        async def body(i=i, d=d, exc=exc):
            try:
                if d:
                    await asyncio.sleep(d)
            except asyncio.CancelledError:
                log.append(('cancelled', i))
                raise
            log.append(('done', i))
            if exc is not None:
                raise exc
            return ('val', i)

        if kind == 'coro':
            aws.append(body())
        elif kind == 'task':
            aws.append(loop.create_task(body()))
        else:
            fut = loop.create_future()

            def fire(fut=fut, i=i, exc=exc):
                if fut.done():
                    log.append(('cancelled', i))
                    return
                log.append(('done', i))
                if exc is not None:
                    fut.set_exception(exc)
                else:
                    fut.set_result(('val', i))
            if d:
                loop.call_later(d, fire)
            else:
                fire()
            aws.append(fut)
    return aws, excs


def one(aiu, outcomes, ranks, offset, pattern, only):
    """Run gather_excs and raise_first_exc once each; return (sig, problems)."""
    k = len(outcomes)
    delays = [r + offset for r in ranks]
    kindf = KIND_PATTERNS[pattern]
    problems = []
    obs = {}

    async def main_gather():
        loop = asyncio.get_running_loop()
        log = []
        aws, excs = build(loop, log, outcomes, delays, kindf)
        got, at_first = [], None
        try:
            async for e in aiu.gather_excs(aws, only):
                if at_first is None:
                    at_first = list(log)
                got.append(e)
        except BaseException as e:   # noqa
            problems.append(('gather_raised', repr(e)))
            await asyncio.sleep(10)   # let the others finish to see what happened to them
            return ('raised', type(e).__name__, tuple(log))
        if at_first is None:
            at_first = list(log)
        expect = [e for e in excs if e is not None and isinstance(e, only)]
        if len(got) != len(expect) or any(a is not b for a, b in zip(got, expect)):
            problems.append(('wrong_yield', f'got={got!r} expect={expect!r}'))
        done = {i for t, i in at_first if t == 'done'}
        if done != set(range(k)):
            problems.append(('not_all_finished_before_first_yield',
                             f'log_at_first_yield={at_first!r} k={k}'))
        if any(t == 'cancelled' for t, _ in log):
            problems.append(('cancelled_sibling', repr(log)))
        return ('ok', tuple(map(repr, got)), tuple(log))

    async def main_first():
        loop = asyncio.get_running_loop()
        log = []
        aws, excs = build(loop, log, outcomes, delays, kindf)
        expect = [e for e in excs if e is not None and isinstance(e, only)]
        try:
            res = await aiu.raise_first_exc(aws, only)
        except BaseException as e:   # noqa
            at = list(log)
            if not expect or e is not expect[0]:
                problems.append(('raise_first_wrong', f'raised={e!r} expect={expect[:1]!r}'))
            out = ('raised', repr(e))
        else:
            at = list(log)
            if expect:
                problems.append(('raise_first_missed', f'returned {res!r} expect={expect[0]!r}'))
            if res is not None:
                problems.append(('raise_first_not_none', repr(res)))
            out = ('none',)
        if {i for t, i in at if t == 'done'} != set(range(k)):
            problems.append(('raise_first_before_all_finished', f'log={at!r}'))
        await asyncio.sleep(10)
        if any(t == 'cancelled' for t, _ in log):
            problems.append(('cancelled_sibling', repr(log)))
        return out + (tuple(log),)

    r1 = run_main(main_gather)
    r2 = run_main(main_first)
    for r, name in ((r1, 'gather_excs'), (r2, 'raise_first_exc')):
        if r.hang or r.shutdown_hang or r.error is not None:
            problems.append(('harness_abnormal', f'{name}: hang={r.hang} err={r.error!r}'))
    return (r1.result, r2.result), problems


def run_case(item):
    from aiuti import asyncio as aiu
    k, ranks, patterns, offsets = item
    st = Stats()
    for outcomes in itertools.product(range(len(OUTCOMES)), repeat=k):
        ocs = [OUTCOMES[o] for o in outcomes]
        for pattern in patterns:
            for offset in offsets:
                for oi, only in enumerate(ONLYS):
                    sig, problems = one(aiu, ocs, ranks, offset, pattern, only)
                    st.executions += 2
                    st.transitions += 2 * k + 2
                    st.sig((k, outcomes, ranks, offset, oi, sig))
                    if len(set(outcomes)) > 1 and len(set(ranks)) > 1:
                        st.count('orders_that_differ_from_input_order')
                    for kind, detail in problems:
                        st.violation(kind, detail, {
                            'k': k, 'outcomes': [getattr(o, '__name__', o) for o in ocs],
                            'ranks': ranks, 'offset': offset, 'pattern': pattern,
                            'only': only.__name__})
    st.sample({'k': k, 'finish_ranks': ranks, 'patterns': patterns, 'offsets': offsets,
               'outcomes': 'all 5^k', 'only': 'all 5'})
    return st


def cases(tier):
    if tier == 'quick':
        plan = {0: ['coro'], 1: ['coro', 'task', 'future'], 2: ['coro', 'task', 'future', 'mixed'],
                3: ['coro', 'mixed', 'mixed2'], 4: ['mixed']}
        offs = {0: (0,), 1: (0, 1), 2: (0, 1), 3: (0, 1), 4: (0,)}
    else:
        plan = {0: ['coro'], 1: ['coro', 'task', 'future'],
                2: ['coro', 'task', 'future', 'mixed', 'mixed2'],
                3: ['coro', 'task', 'future', 'mixed', 'mixed2'],
                4: ['coro', 'task', 'future', 'mixed', 'mixed2'], 5: ['mixed']}
        offs = {0: (0,), 1: (0, 1), 2: (0, 1), 3: (0, 1), 4: (0, 1), 5: (0,)}
    for k, pats in plan.items():
        for ranks in weak_orders(k):
            yield (k, ranks, pats, offs[k])


def main(tier):
    t0 = time.time()
    common.use_source()
    total = Stats()
    items = list(cases(tier))
    for st in common.pmap(run_case, items, chunksize=1):
        total.merge(st)
    total.count('weak_orderings_x_k', len(items))
    kmax = max(i[0] for i in items)
    return common.finish(
        PID, tier, total, t0,
        rule=(f'every list of 0..{kmax} awaitables x 5 outcomes each x every weak ordering of finishing '
              'times x kind patterns x base offset x 5 `only` classes, each run through gather_excs '
              'and raise_first_exc on a fresh virtual loop; a state = (program, observed yields + '
              'completion log); distinct = distinct (program, observation) pairs'),
        assumptions=['CPython 3.12 asyncio.gather semantics', 'virtual clock: delays are exact'])


def replay(path):
    import json
    from aiuti import asyncio as aiu
    rp = json.load(open(path))['replay']
    names = {'ret': 'ret', 'Base': Base, 'Sub': Sub, 'Unrelated': Unrelated, 'OnlyBase': OnlyBase}
    only = {c.__name__: c for c in ONLYS}[rp['only']]
    sig, problems = one(aiu, [names[o] for o in rp['outcomes']], tuple(rp['ranks']), rp['offset'],
                        rp['pattern'], only)
    print('observation:', sig)
    for p in problems:
        print('PROBLEM', p)
    return 1 if problems else 0
