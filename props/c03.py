"""C03 - buffered calls are never lost (engine A part; engine B part: props/c03b via mc/tx).

Engine A enumerates timed programs over {plain call, await_(delay/fail), map(list),
map(iterator, fail position), amap(delays, fail position), wait(cancel T/F)} with gaps from
a grid straddling the timeout, x failure scripts of the wrapped function x function durations.
"""
import itertools
import json
import time

from mc import common
from mc.common import Stats
from . import buffer as BF
from . import bufprog as P

PID = 'C03'


def run_case(item):
    from aiuti import asyncio as aiu
    seqs, gapsets, envs = item
    st = Stats()
    P.run_programs(aiu, seqs, gapsets, envs, P.oracle_c03, st, 'c03')
    st.sample({'action_sequences': [list(map(list, s)) for s in seqs[:2]], 'gap_vectors': len(gapsets),
               'environments(fail script, duration)': envs[:3]})
    return st


def has_submission(seq):
    return any(a[0] != 'wait' for a in seq)


def plan(tier):
    T = P.T
    durs = (0.0, T / 4, 2 * T)
    if tier == 'quick':
        spec = [(1, 1, P.GRID, 2, 6, durs), (2, 1, P.GRID, 2, 6, durs), (3, 1, P.SMALL, 1, 4, (0.0, 2 * T)),
                (4, 0, P.SMALL, 1, 3, (0.0, 2 * T))]
    else:
        spec = [(1, 1, P.GRID, 6, 6, durs), (2, 2, P.GRID, 2, 6, durs), (3, 1, P.GRID, 1, 4, (0.0, 2 * T)),
                (4, 1, P.SMALL, 1, 3, (0.0, 2 * T)), (5, 0, P.SMALL, 1, 3, (0.0,))]
    for n, maxc, grid, maxf, hor, ds in spec:
        envs = [(f, d) for f in P.fail_scripts(maxf, hor) for d in ds]
        gapsets = list(itertools.product(grid, repeat=n - 1))
        seqs = list(P.action_seqs(n, maxc, has_submission))
        step = max(1, len(seqs) // 64)
        for i in range(0, len(seqs), step):
            yield (seqs[i:i + step], gapsets, envs)


def main(tier):
    t0 = time.time()
    common.use_source()
    total = Stats()
    for st in common.pmap(run_case, list(plan(tier))):
        total.merge(st)
    extra = {}
    rc_b = 0
    try:
        from . import c03b
    except ImportError:
        c03b = None
    if c03b is not None:
        rc_b = c03b.run_into(total, tier)
    return common.finish(
        PID, tier, total, t0,
        rule=('engine A: all programs of 1..4 (thorough 5) submissions/waits (<= 1-2 complex producers per '
              'program) x gap grid straddling the timeout x failure scripts of the wrapped function x '
              'durations; oracle: every successfully produced argument is in a successful call, calls only '
              'contain submitted arguments, loop-thread arguments in exactly one successful call'),
        assumptions=['virtual clock', 'engine A runs map(iterator) helper threads to completion at submit time'])


def replay(path):
    from aiuti import asyncio as aiu
    doc = json.load(open(path))['replay']
    if doc.get('mode') != 'program':
        from . import c03b
        return c03b.replay_doc(doc)
    ev = [(g, tuple(tuple(tuple(y) if isinstance(y, list) else y for y in x) if isinstance(x, list) else x
                    for x in op)) for g, op in doc['events']]
    obs, run = BF.execute(aiu, ev, P.T, tuple(doc['fails']), doc['dur'])
    for s in obs.submits:
        print('submit', s['t'], s['kind'], s['values'], 'ok_prefix', s['ok_prefix'])
    for c in obs.calls:
        print('call', c['idx'], 'start', c['start'], 'end', c['end'], c['args'], 'ok', c['ok'])
    for w in obs.waits:
        print('wait', w)
    bad = P.oracle_c03(obs, run)
    for x in bad:
        print('PROBLEM', x)
    return 1 if bad else 0
