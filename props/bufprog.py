"""Program enumeration + oracles shared by C03 (never lost) and C07 (wait barrier / shutdown)."""
import itertools

from mc.common import Stats
from mc.vloop import EPS
from . import buffer as BF

T = 1.0
H = EPS / 2
GRID = (0.0, T / 4, T - EPS, T, T + EPS, 2.5 * T)
SMALL = (0.0, T - EPS, T + EPS)

SIMPLE = [('put',), ('map_list',), ('wait', True), ('wait', False)]


def complex_actions():
    for delay in (0.0, T / 4, 2 * T):
        for fail in (False, True):
            yield ('await', delay, fail)
    for failpos in (None, 0, 1, 2):
        yield ('map_iter', failpos)
    for failpos in (1, 2):
        yield ('map_reiter', failpos)
    for cancel in (True, False):
        yield ('put_wait', cancel)
    for delays in ((0.0, 0.0), (0.0, T / 4), (2 * T, 0.0)):
        for failpos in (None, 0, 1, 2):
            yield ('amap', delays, failpos)


COMPLEX = list(complex_actions())


def action_seqs(n, max_complex, need=None):
    """All sequences of n abstract actions with at most max_complex complex ones."""
    for k in range(0, max_complex + 1):
        for pos in itertools.combinations(range(n), k):
            for simple in itertools.product(SIMPLE, repeat=n - k):
                for cx in itertools.product(COMPLEX, repeat=k):
                    seq, si, ci = [], iter(simple), iter(cx)
                    for i in range(n):
                        seq.append(next(ci) if i in pos else next(si))
                    if need and not need(seq):
                        continue
                    yield tuple(seq)


def concretise(seq, gaps):
    """Abstract actions -> buffer events with fresh distinct integer arguments."""
    ev, nxt = [], 0
    for g, a in zip(gaps, seq):
        k = a[0]
        if k == 'put':
            ev.append((g, ('put', nxt)))
            nxt += 1
        elif k == 'map_list':
            ev.append((g, ('map_list', (nxt, nxt + 1))))
            nxt += 2
        elif k == 'wait':
            ev.append((g, ('wait', a[1])))
        elif k == 'await':
            ev.append((g, ('await', nxt, a[1], a[2])))
            nxt += 1
        elif k == 'map_iter':
            ev.append((g, ('map_iter', (nxt, nxt + 1), a[1])))
            nxt += 2
        elif k == 'map_reiter':
            ev.append((g, ('map_reiter', (nxt, nxt + 1), a[1])))
            nxt += 2
        elif k == 'put_wait':
            ev.append((g, ('put_wait', nxt, a[1])))
            nxt += 1
        elif k == 'amap':
            ev.append((g, ('amap', ((nxt, a[1][0]), (nxt + 1, a[1][1])), a[2])))
            nxt += 2
    return ev


def fail_scripts(maxf, horizon):
    yield ()
    for k in range(1, maxf + 1):
        for pos in itertools.combinations(range(horizon), k):
            yield tuple(i in pos for i in range(horizon))


# ----------------------------------------------------------------------------- oracles
def oracle_c03(obs, run):
    bad = []
    if run.hang or run.error is not None or run.horizon:
        return [('harness_abnormal', f'hang={run.hang} error={run.error!r}')]
    submitted = set()
    for s in obs.submits:
        submitted |= set(s['ok_prefix'])
    good = [c for c in obs.calls if c['ok']]
    delivered = set()
    for c in good:
        delivered |= set(c['args_end'])
    lost = submitted - delivered
    if lost:
        bad.append(('argument_lost',
                    f'submitted {sorted(lost)} never reached a successful call; calls: '
                    f'{[(c["start"], c["args"], c["ok"]) for c in obs.calls]}; submissions: '
                    f'{[(s["t"], s["kind"], s["values"], s["ok_prefix"]) for s in obs.submits]}'))
    for c in obs.calls:
        avail = set()
        for s in obs.submits:
            if s['t'] <= (c['end'] if c['end'] is not None else 1e18) + 1e-9:
                avail |= set(s['ok_prefix'])
        extra = set(c.get('args_end', c['args'])) - avail
        if extra:
            bad.append(('unsubmitted_argument', f'call#{c["idx"]} at {c["start"]} received {sorted(extra)} '
                                                f'which was not submitted (or produced after a producer failed)'))
    for x in submitted:
        n = sum(1 for c in good if x in c['args_end'])
        if n > 1:
            bad.append(('delivered_twice', f'argument {x} (submitted from the loop thread) is in {n} successful '
                                           f'calls: {[(c["start"], c["args"]) for c in good if x in c["args_end"]]}'))
    return bad


def oracle_c07(obs, run):
    bad = []
    if run.error is not None or run.horizon:
        return [('harness_abnormal', f'error={run.error!r}')]
    for w in obs.waits:
        if w['ret_t'] is None:
            bad.append(('wait_never_returned',
                        f'wait(cancel={w["cancel"]}) called at {w["t"]} still pending at {run.end_time}; calls: '
                        f'{[(c["start"], c["end"], c["args"], c["ok"]) for c in obs.calls]}'))
            continue
        missing = w['submitted_before'] - w['delivered_at_ret']
        if missing:
            bad.append(('wait_returned_early',
                        f'wait(cancel={w["cancel"]}) called at {w["t"]} returned at {w["ret_t"]} but '
                        f'{sorted(missing)} submitted before it had not been delivered successfully; calls: '
                        f'{[(c["start"], c["end"], c["args"], c["ok"]) for c in obs.calls]}'))
    return bad


def run_programs(aiu, seqs, gapsets, envs, oracle, st, label):
    for seq in seqs:
        for gs in gapsets:
            ev = concretise(seq, (0.0,) + tuple(gs))
            variants = [ev]
            late = [i for i, (g, op) in enumerate(ev) if op[0] == 'put' and abs(g - (T - EPS)) < 1e-9]
            if late:       # 'just before the timer' also means: only a few loop iterations before it
                i = late[0]
                for k in (1, 2, 3, 4):
                    variants.append(ev[:i] + [(ev[i][0], ('put_late', ev[i][1][1], k))] + ev[i + 1:])
            for ev, (fails, dur) in itertools.product(variants, envs):
                obs, run = BF.execute(aiu, ev, T, fails, dur)
                st.executions += 1
                st.transitions += len(ev) + len(obs.calls)
                st.sig((tuple(ev), fails, dur, BF.describe(obs)))
                if any(not c['ok'] for c in obs.calls):
                    st.count('runs_with_a_failed_invocation')
                if any(w['ret_t'] is not None for w in obs.waits):
                    st.count('runs_with_wait_returning')
                for kind, detail in oracle(obs, run):
                    st.violation(kind, detail, {'mode': 'program', 'events': ev, 'fails': fails, 'dur': dur})
