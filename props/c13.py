"""C13 - a crashed holder never leaves the FileLock stuck (engine C: real processes, SIGKILL).

Victim scenarios {blocking acquire/hold/release, timed acquire against a busy lock, reentrant
nested x2, with-block, acquire_ctx, lock object already used by the parent before the fork} x
SIGKILL at EVERY report index of the victim (every source-line event of aiuti/filelock.py and
every flock/sleep operation; discovered by a dry run) x 0..2 live contenders (blocking or timed)
whose interleaving with the victim is explored with a preemption bound. Also (C02, processes):
2..3 processes without any kill. After every execution a fresh process must acquire at once.
"""
import json
import os
import shutil
import signal
import subprocess
import tempfile
import time

from mc import common, px, tx
from mc.common import Stats

PID = 'C13'
D = 1.0


def scen(kind, path, flmod, inherited=None):
    """Returns callable(env, api) executed inside the forked child."""
    def hold(env, api, lock=None):
        api.enter()
        for _ in range(8):          # the holder can be killed at several instants of its hold
            env.sleep(D / 8)
        api.exit()

    def gave_up(env, api):
        # a contender that was told "not acquired" goes on living for a while
        env.sleep(2 * D)

    def run(env, api):
        FileLock = flmod.FileLock
        if kind == 'block':
            lk = FileLock(path)
            ok = lk.acquire()
            api.result(ok)
            if ok:
                hold(env, api)
                lk.release()
        elif kind == 'timed':
            lk = FileLock(path)
            ok = lk.acquire(timeout=D / 2, poll_interval=D / 4)
            api.result(ok)
            if ok:
                hold(env, api)
                lk.release()
            else:
                gave_up(env, api)
        elif kind == 'timed_long':
            lk = FileLock(path)
            ok = lk.acquire(timeout=3 * D, poll_interval=D / 2)
            api.result(ok)
            if ok:
                hold(env, api)
                lk.release()
            else:
                gave_up(env, api)
        elif kind == 'nested':
            lk = FileLock(path, reentrant=True)
            ok = lk.acquire() and lk.acquire()
            api.result(ok)
            if ok:
                hold(env, api)
                lk.release()
                lk.release()
        elif kind == 'with':
            lk = FileLock(path)
            with lk:
                api.result(True)
                hold(env, api)
        elif kind == 'ctx':
            lk = FileLock(path)
            try:
                with lk.acquire_ctx(timeout=2 * D, poll_interval=D / 2):
                    api.result(True)
                    hold(env, api)
            except TimeoutError:
                api.result(False)
        elif kind == 'inherited':      # the lock object was created AND used by the parent before the fork
            lk = inherited
            ok = lk.acquire()
            api.result(ok)
            if ok:
                hold(env, api)
                lk.release()
        elif kind == 'helper':
            # a daemon-like holder (no stdin: the lock file gets descriptor 0) that launches a long-running
            # helper program while it holds the lock; the helper outlives the holder
            try:
                os.close(0)
            except OSError:
                pass
            lk = FileLock(path)
            ok = lk.acquire()
            api.result(ok)
            if ok:
                p = subprocess.Popen(['/bin/sleep', '300'], close_fds=False)
                with open(path + '.helper', 'w') as f:
                    f.write(str(p.pid))
                hold(env, api)
                lk.release()
        elif kind == 'nb':
            lk = FileLock(path)
            ok = lk.acquire(False)
            api.result(ok)
            if ok:
                hold(env, api)
                lk.release()
        else:
            raise ValueError(kind)
    return run


def fresh_probe(flmod, path):
    """A brand-new process tries acquire(blocking=False) right now. -> bool"""
    r, w = os.pipe()
    pid = os.fork()
    if pid == 0:
        try:
            os.close(r)
            lk = flmod.FileLock(path)
            ok = lk.acquire(False)
            os.write(w, b'1' if ok else b'0')
            if ok:
                lk.release()
        finally:
            os._exit(0)
    os.close(w)
    import select
    import signal
    ready, _, _ = select.select([r], [], [], 10.0)      # a non-blocking attempt must return at once
    data = os.read(r, 1) if ready else b'T'
    os.close(r)
    if not ready:
        os.kill(pid, signal.SIGKILL)
    os.waitpid(pid, 0)
    return data == b'1'


def reap_helper(path):
    try:
        with open(path + '.helper') as f:
            pid = int(f.read())
    except (OSError, ValueError):
        return
    try:
        os.kill(pid, signal.SIGKILL)
    except OSError:
        pass
    try:
        os.unlink(path + '.helper')
    except OSError:
        pass


def run_world(flmod, w, path, prefix=(), expect=None):
    # every execution starts from a pristine lock file (a change that writes to / unlinks the file must
    # not leak state into the next execution)
    try:
        os.unlink(path)
    except FileNotFoundError:
        pass
    inherited = None
    if 'inherited' in [w['victim']] + list(w['contenders']):
        inherited = flmod.FileLock(path)
        assert inherited.acquire(False)       # pre-use in the parent, then fork
        inherited.release()
    progs = [('victim:' + w['victim'], scen(w['victim'], path, flmod, inherited))]
    for i, c in enumerate(w['contenders']):
        progs.append((f'contender{i}:' + c, scen(c, path, flmod, inherited)))
    order = w.get('order', 'victim_first')
    if order == 'contender_first' and len(progs) > 1:
        progs = progs[1:] + progs[:1]
    vslot = len(progs) - 1 if order == 'contender_first' and len(progs) > 1 else 0
    kill = None if w['kill'] is None else (vslot, w['kill'])
    def on_report(kids, c, kind, iarg):
        # a contender reported "not acquired": if every other process is gone, nobody can hold the lock,
        # so a fresh process must be able to take it right now (while that contender is still alive)
        if kind == b'A' and iarg == 0 and all(k is c or k.state in ('done', 'dead') for k in kids):
            if not fresh_probe(flmod, path):
                return ('gave_up_but_keeps_the_lock', f'process slot {c.slot} ({c.name}) reported a failed acquire, '
                                                      f'all other processes are gone, yet the lock file is locked')
    try:
        x = px.run_processes(flmod, progs, prefix, expect, kill=kill, on_report=on_report)
        x.vslot = vslot
        # after everything: a fresh process must be able to take the lock immediately
        x.fresh_ok = fresh_probe(flmod, path)
    finally:
        reap_helper(path)
    if inherited is not None:
        inherited._lock_file_fd = None
        idle = getattr(inherited, '_idle_fd', None)
        if isinstance(idle, int):
            try:
                os.close(idle)
            except OSError:
                pass
    return x


def check(x, w):
    bad = []
    for ev in x.log:
        if ev[2] == 'HOOK':
            bad.append((ev[3][0], ev[3][1] + f'; log {x.log}'))
        if ev[2] == 'OVERLAP':
            bad.append(('two_processes_inside', f'process slot {ev[1]} entered the section at t={ev[0]} while '
                                                f'slots {ev[3]} inside; log {x.log}'))
    if x.aborted == 'stuck':
        bad.append(('survivor_parked_forever', f'nobody can move: {x.stuck}; kill={w["kill"]}; log {x.log}'))
    elif x.aborted in ('horizon', 'budget', 'child_failed'):
        bad.append((f'execution_{x.aborted}', f'log {x.log}'))
    if not x.fresh_ok and not x.aborted:
        bad.append(('lock_left_stuck', f'after all survivors finished (victim killed at its report #{w["kill"]}) a '
                                       f'fresh process could not acquire the lock; log {x.log}'))
    # a contender that reported success must have been the only one inside: covered by OVERLAP; a blocking
    # contender must eventually succeed
    for slot, name, state, reports in x.kids:
        if slot == x.vslot and w['kill'] is not None:
            continue
        if name.split(':')[1] in ('block', 'nested', 'with', 'inherited', 'helper') and state == 'done':
            got = [e for e in x.log if e[1] == slot and e[2] == 'A']
            if not got or got[0][3] != 1:
                bad.append(('blocking_survivor_failed', f'{name} finished without acquiring; log {x.log}'))
    return bad


VICTIMS = ['block', 'timed', 'nested', 'with', 'ctx', 'inherited', 'timed_long']


def dry_run(flmod, path, victim, contenders, order):
    w = {'victim': victim, 'contenders': contenders, 'kill': None, 'order': order}
    x = run_world(flmod, w, path)
    vr = [k for k in x.kids if k[0] == x.vslot][0][3]
    return vr, x


def run_item(item):
    import aiuti.filelock as flmod
    mode, victim, contenders, order, pb, kills = item
    st = Stats()
    d = tempfile.mkdtemp(prefix='verif-c13-')
    path = os.path.join(d, 'file.lock')
    try:
        nrep, x0 = dry_run(flmod, path, victim, contenders, order)
        st.count('max_victim_points', nrep)
        if x0.aborted:
            st.violation(f'dry_run_{x0.aborted}', f'{victim} {contenders}: {x0.stuck} log {x0.log}',
                         {'w': {'victim': victim, 'contenders': contenders, 'kill': None, 'order': order},
                          'prefix': []})
        klist = [None] if mode == 'nokill' else [k for k in range(nrep) if kills is None or k % kills[1] == kills[0]]
        for k in klist:
            w = {'victim': victim, 'contenders': contenders, 'kill': k, 'order': order}

            def run_one(prefix, expect, w=w):
                x = run_world(flmod, w, path, prefix, expect)
                return x

            def on_exec(prefix, x, w=w):
                st.executions += 1
                st.transitions += x.points
                st.sig((victim, tuple(contenders), order, w['kill'],
                        tuple((e[1], e[2], e[3]) for e in x.log), x.aborted, x.fresh_ok))
                st.count('scheduling_choices', len(x.choices))
                if any(e[2] == 'KILLED' for e in x.log):
                    st.count('executions_with_a_kill')
                for kind, detail in check(x, w):
                    st.violation(kind, f'[{w}] ' + detail, {'w': w, 'prefix': list(prefix)})
            try:
                tx.explore(run_one, pb, on_exec=on_exec, fbound=1, stop=lambda: st.extra.get('violations_total', 0) >= 12)
            except tx.Divergence as e:
                raise common.MachineryError(f'world {w}: {e}')
        st.sample({'victim': victim, 'contenders': contenders, 'order': order,
                   'kill_points': 'every report index 0..%d' % (nrep - 1) if mode == 'kill' else None,
                   'preemption_bound': pb})
    finally:
        shutil.rmtree(d, ignore_errors=True)
    return st


def plan(tier):
    q = tier == 'quick'
    items = []
    for v in VICTIMS:
        # no contender: kill everywhere
        items.append(('kill', v if v != 'timed' else 'block', [], 'victim_first', 0, None))
        cont_sets = [['block'], ['timed_long'], ['timed'], ['block', 'block']] if q else \
            [['block'], ['timed_long'], ['timed'], ['block', 'block'], ['block', 'timed_long']]
        for cs in cont_sets:
            for order in ('victim_first', 'contender_first'):
                if v in ('timed', 'timed_long') and order == 'victim_first':
                    continue          # a timed victim needs the lock busy first
                nshard = 4
                for s in range(nshard):
                    items.append(('kill', v, cs, order, 0 if q or len(cs) > 1 else 1, (s, nshard)))
    # a holder without stdin that launched a helper program which outlives it
    items.append(('kill', 'helper', [], 'victim_first', 0, None))
    for s in range(2):
        items.append(('kill', 'helper', ['block'], 'victim_first', 0, (s, 2)))
    # C02 cross-process clause: no kill, 2..3 processes, all interleavings
    for progs in (['block', 'block'], ['block', 'timed_long'], ['with', 'ctx'], ['nested', 'nb'],
                  ['block', 'block', 'block'], ['inherited', 'block']):
        items.append(('nokill', progs[0], progs[1:], 'victim_first',
                      (1 if len(progs) == 2 else 0) if q else (2 if len(progs) == 2 else 1), None))
    return items


def main(tier):
    t0 = time.time()
    common.use_source()
    total = Stats()
    for st in common.pmap(run_item, plan(tier)):
        total.merge(st)
    return common.finish(
        PID, tier, total, t0,
        rule=('victim scenarios {blocking, timed vs busy lock, reentrant nested, with, acquire_ctx, lock object '
              'pre-used by the parent before fork, holder without stdin that launched a long-lived helper program} x SIGKILL at every report index of the victim (every line of '
              'aiuti/filelock.py it executes + flock/sleep operations) x contender sets {none, blocking, timed, two '
              'blocking, ...} started before/after the victim x all schedules of the real processes with <= PB '
              'preemptions (and <= 1 non-default choice at blocking points); plus kill-free 2..3 process worlds '
              '(mutual exclusion across processes). Oracle: sections of live processes never overlap, no live '
              'process parked with nobody able to move, blocking survivors acquire, and a fresh process acquires '
              'non-blockingly at the end'),
        assumptions=['Linux flock semantics on a local filesystem', 'children are single-threaded; virtual time for '
                     'timeouts and poll sleeps', 'kill granularity = source line / shim operation'])


def replay(path):
    import aiuti.filelock as flmod
    doc = json.load(open(path))['replay']
    d = tempfile.mkdtemp(prefix='verif-c13-')
    try:
        res = []
        for _ in range(2):
            x = run_world(flmod, doc['w'], os.path.join(d, 'file.lock'), tuple(doc['prefix']), None)
            bad = check(x, doc['w'])
            res.append([b[0] for b in bad])
        for e in x.log:
            print('  ', e)
        print('aborted', x.aborted, 'fresh process can acquire:', x.fresh_ok)
        for b in bad:
            print('PROBLEM', b[0])
    finally:
        shutil.rmtree(d, ignore_errors=True)
    if res[0] != res[1]:
        print('machinery error: replay not deterministic')
        return 2
    return 1 if bad else 0
