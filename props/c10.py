"""C10 - batch size / concurrency / FIFO / batch_timeout (engine A).

Enumerated: every arrival-time sequence of N calls (distinct keys) with gaps from
GRID (straddling batch_timeout), optionally one `max_batch_size` mutation event at
any position, for every (max_batch_size, max_concurrent_batches, batch duration)
of the tier. Oracle: property-level clauses evaluated on the batch log of the
harness-owned batch function (no re-statement of the implementation).
"""
import itertools
import json
import time

from mc import common
from mc.common import Stats
from mc.vloop import EPS
from . import batcher as B

PID = 'C10'
BT = B.BT


def check_log(obs, run, events, cfg):
    """Return list of (kind, detail)."""
    bad = []
    if run.hang or run.error is not None or run.horizon:
        bad.append(('caller_never_answered', f'hang={run.hang} error={run.error!r}'))
        return bad
    calls = obs.calls
    arr = {c['key']: c['t'] for c in calls}
    order = [c['key'] for c in calls]
    hist = obs.maxsize_hist          # [(t, v)] program order

    def values_in(t0, t1):
        """max_batch_size values in force at some point of [t0, t1]."""
        vals = set()
        before = [v for t, v in hist if t < t0]
        if before:
            vals.add(before[-1])
        vals |= {v for t, v in hist if t0 <= t <= t1}
        return vals

    batches = sorted(obs.batches, key=lambda b: b['bid'])
    # 1. never empty, never above the limit in force while the item joined
    flat = []
    for b in batches:
        keys = [k for k, _ in b['items']]
        flat.extend(keys)
        if not keys:
            bad.append(('empty_batch', f'batch {b["bid"]} at t={b["start"]}'))
            continue
        for j in range(1, len(keys)):
            lo, hi = arr[keys[j - 1]], arr[keys[j]]
            lim = max(values_in(min(lo, hi), max(lo, hi)))
            if j + 1 > lim:
                bad.append(('batch_over_max_size',
                            f'batch {keys} item#{j + 1} joined although max_batch_size was <= {lim} '
                            f'throughout [{lo},{hi}]'))
                break
        if len(keys) > max(v for _, v in hist):
            bad.append(('batch_over_max_size', f'batch {keys} larger than any limit ever set'))
    # 2. concurrency
    if obs.max_running > cfg['mcb']:
        bad.append(('too_many_concurrent_batches', f'{obs.max_running} > {cfg["mcb"]}'))
    # 3. FIFO within and across batches; everything handed over exactly once
    if flat != order:
        bad.append(('not_fifo', f'batches(flat)={flat} arrival order={order}'))
    starts = [b['start'] for b in batches]
    if starts != sorted(starts):
        bad.append(('not_fifo', f'batch start times not monotone: {starts}'))
    # 4. sharing: consecutive arrivals closer than batch_timeout share a batch until it is full
    where = {}
    for b in batches:
        for j, (k, _) in enumerate(b['items']):
            where[k] = (b['bid'], j)
    bybid = {b['bid']: b for b in batches}
    mut_times = [t for t, _ in hist[1:]]
    for a, c in zip(order, order[1:]):
        if a not in where or c not in where:
            continue
        gap = arr[c] - arr[a]
        if gap < BT - EPS / 2 and where[a][0] != where[c][0]:
            # the earlier batch may legitimately have been closed as full under any limit in force
            # between the earlier item joining and the later one arriving
            lim_vals = values_in(arr[a], arr[c])
            ba = bybid[where[a][0]]
            if len(ba['items']) < min(lim_vals):
                bad.append(('split_before_full',
                            f'{a}@{arr[a]} and {c}@{arr[c]} are {gap} apart (< batch_timeout) but in '
                            f'different batches although {[k for k, _ in ba["items"]]} was not full '
                            f'(limits in force in between: {sorted(lim_vals)})'))
    # 5. dispatch time: no later than batch_timeout after the last arrival that joined (slot free),
    #    else exactly when a slot frees (FIFO). Simulated from observed durations.
    ends = []     # end times of running batches (reference semaphore)
    for b in batches:
        keys = [k for k, _ in b['items']]
        if not keys:
            continue
        last = max(arr[k] for k in keys)
        deadline = last + BT
        running = sorted(e for e in ends if e > deadline + 1e-9)
        # batches that ended exactly at the deadline: tie, not judged
        tie = any(abs(e - deadline) < EPS / 2 for e in ends) or \
            any(abs(arr[k2] - deadline) < EPS / 2 for k2 in order)
        if len(running) < cfg['mcb']:
            latest = deadline
        else:
            latest = running[len(running) - cfg['mcb']]
        if b['start'] > latest + 1e-9 and not tie:
            bad.append(('dispatched_late',
                        f'batch {keys} started at {b["start"]}, allowed no later than {latest} '
                        f'(last arrival {last}, batch_timeout {BT}, slots {cfg["mcb"]})'))
        if b['start'] < last - 1e-9:
            bad.append(('dispatched_before_arrival', f'batch {keys} started {b["start"]} < {last}'))
        ends.append(b['end'] if b['end'] is not None else float('inf'))
    # 6. every caller got its own key's value
    for c in calls:
        out = c['out']
        if not out or out[0] != 'ret' or getattr(out[1], 'key', None) != c['key']:
            bad.append(('wrong_outcome', f'call {c["key"]} -> {out!r}'))
    return bad


def programs(n, gaps, setmax_vals, g1=None):
    """All programs of n calls with gaps (first gap 0) and at most one setmax event."""
    for gs in itertools.product(gaps, repeat=n - 1):
        if g1 is not None and gs and gs[0] != g1:
            continue
        base = [(0.0, ('call', 0))] + [(g, ('call', i + 1)) for i, g in enumerate(gs)]
        yield base
        for pos in range(1, n):
            for v in setmax_vals:
                # the mutation lands strictly between two arrivals when the gap allows it
                g = base[pos][0]
                if g >= 0.25:
                    ev = base[:pos] + [(g / 2, ('setmax', v)), (g - g / 2, base[pos][1])] + base[pos + 1:]
                else:
                    ev = base[:pos] + [(g, ('setmax', v)), (0.0, base[pos][1])] + base[pos + 1:]
                yield ev


def run_case(item):
    from aiuti import asyncio as aiu
    n, g1, cfgs, gaps, setmax_vals = item
    st = Stats()
    last = None
    for ev in programs(n, gaps, setmax_vals, g1):
        last = ev
        for cfg in cfgs:
            obs, run = B.execute(aiu, ev, cfg)
            st.executions += 1
            st.transitions += len(ev) + len(obs.batches)
            st.sig((tuple(ev), cfg['mbs'], cfg['mcb'], cfg['batch_dur'], cfg.get('eager'), B.describe(obs)))
            if len(obs.batches) > 1:
                st.count('runs_with_several_batches')
            if obs.max_running >= cfg['mcb'] and len(obs.batches) > cfg['mcb']:
                st.count('runs_reaching_concurrency_limit')
            for kind, detail in check_log(obs, run, ev, cfg):
                st.violation(kind, detail, {'events': ev, 'cfg': cfg})
    st.sample({'n_calls': n, 'first_gap': g1, 'example_program': last, 'cfgs': len(cfgs)})
    return st


def plan(tier):
    if tier == 'quick':
        ns = [1, 2, 3, 4, 5]
        gaps = {1: B.GRID, 2: B.GRID, 3: B.GRID, 4: B.GRID, 5: (0.0, 0.25, BT - EPS, BT + EPS)}
        mbs, mcb, durs = (1, 2, 3, 5), (1, 2), (0.0, 0.5, 3.0)
        setv = (1, 2, 4)
    else:
        ns = [1, 2, 3, 4, 5, 6, 7]
        gaps = {1: B.GRID, 2: B.GRID, 3: B.GRID, 4: B.GRID, 5: B.GRID,
                6: (0.0, 0.25, BT - EPS, BT + EPS), 7: (0.0, BT - EPS, BT + EPS)}
        mbs, mcb, durs = (1, 2, 3, 4, 5), (1, 2, 3), (0.0, 0.5, 3.0)
        setv = (1, 2, 4)
    for n in ns:
        cfgs = [{'mbs': a, 'mcb': b, 'batch_dur': d, 'R': 0.0, 'eager': e} for a in mbs for b in mcb for d in durs
                for e in ((False, True) if d else (False,)) if a <= n + 1]
        sv = setv if n <= (4 if tier == 'quick' else 5) else ()
        if n == 1:
            yield (n, None, cfgs, gaps[n], sv)
        else:
            for g1 in gaps[n]:
                yield (n, g1, cfgs, gaps[n], sv)


def main(tier):
    t0 = time.time()
    common.use_source()
    total = Stats()
    items = list(plan(tier))
    for st in common.pmap(run_case, items):
        total.merge(st)
    nmax = max(i[0] for i in items)
    return common.finish(
        PID, tier, total, t0,
        rule=(f'all arrival sequences of 1..{nmax} calls with gaps from a grid straddling batch_timeout, '
              'with and without one max_batch_size mutation at every position, x max_batch_size x '
              'max_concurrent_batches x batch duration; state = (program, config, batch log, caller '
              'outcomes) observed on the real batcher under the virtual loop'),
        assumptions=['virtual clock; exact ties between an arrival/mutation and a timer are not judged for timing',
                     'distinct keys per call (key sharing is C11)'])


def replay(path):
    from aiuti import asyncio as aiu
    rp = json.load(open(path))['replay']
    ev = [(g, tuple(op)) for g, op in rp['events']]
    obs, run = B.execute(aiu, ev, rp['cfg'])
    for b in obs.batches:
        print('batch', b['bid'], 'start', b['start'], 'end', b['end'], [k for k, _ in b['items']])
    bad = check_log(obs, run, ev, rp['cfg'])
    for x in bad:
        print('PROBLEM', x)
    return 1 if bad else 0
