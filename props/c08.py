"""C08 - buffer debounce: one non-overlapping, non-empty call per quiet period (engine A).

Enumerated: arrival sequences of N immediately-available submissions (plain call,
map(list), map(iterator)) with gaps from G(T) = {0, T/4, T-e, T, T+e, 2.5T}, T in
{1/4, 1, 3}, function duration in {0, T/4, 2T}, every failure script with <= 2 failing
invocations among the first 4, no forced flush.
"""
import itertools
import json
import time

from mc import common
from mc.common import Stats
from mc.vloop import EPS
from . import buffer as BF

PID = 'C08'
H = EPS / 2


def grid(T):
    return (0.0, T / 4, T - EPS, T, T + EPS, 2.5 * T)


def check_log(obs, run, T):
    bad = []
    if run.hang or run.error is not None or run.horizon:
        # engine A settles by sleeping, so a hang here means main() itself never finished
        bad.append(('harness_abnormal', f'hang={run.hang} error={run.error!r}'))
        return bad
    calls = obs.calls
    if obs.overlap:
        bad.append(('overlapping_invocations', repr([(c['start'], c['end']) for c in calls])))
    for c in calls:
        if not c['args']:
            bad.append(('empty_invocation', f'call#{c["idx"]} at {c["start"]} with an empty set'))
    arrivals = [(s['t'], tuple(s['ok_prefix'])) for s in obs.submits]
    # clause A: no call starts less than T after a submission that precedes it
    for c in calls:
        for t, vals in arrivals:
            if t < c['start'] - H and c['start'] - t < T - EPS - 1e-9:   # same-instant ties not judged
                bad.append(('called_during_burst',
                            f'call#{c["idx"]} started at {c["start"]}, only {c["start"] - t} after the '
                            f'submission of {vals} at {t} (timeout {T})'))
                break
    # clause B: a burst arriving while the function is idle is delivered together at last + T
    def running_at(t):      # includes the boundary instants (ties are not judged)
        return any(c['start'] - H <= t <= (c['end'] if c['end'] is not None else 1e18) + H for c in calls)
    bursts, cur, tainted = [], [], set()
    for i, (t, vals) in enumerate(arrivals):
        if cur:
            gap = t - arrivals[i - 1][0]
            if gap <= T - EPS + 1e-9:
                cur.append(i)
                continue
            if gap < T + EPS - 1e-9:       # lands on the timer itself: neighbours not judged
                tainted.add(len(bursts))
                tainted.add(len(bursts) + 1)
            bursts.append(cur)
            cur = []
        cur.append(i)
    if cur:
        bursts.append(cur)
    for bi, idxs in enumerate(bursts):
        if bi in tainted:
            continue
        ts = [arrivals[i][0] for i in idxs]
        if any(running_at(t) for t in ts):
            continue
        want = set()
        for i in idxs:
            want |= set(arrivals[i][1])
        if not want:
            continue
        last = ts[-1]
        # a later arrival exactly at the firing instant: tie, not judged
        if any(abs(t - (last + T)) < H for t, _ in arrivals):
            continue
        hit = [c for c in calls if abs(c['start'] - (last + T)) < 1e-9]
        if not hit:
            bad.append(('burst_not_flushed_on_time',
                        f'burst {sorted(want, key=repr)} (arrivals {ts}, function idle) expected one call '
                        f'starting at {last + T}; calls: {[(c["start"], c["args"]) for c in calls]}'))
        elif not want <= set(hit[0]['args']):
            bad.append(('burst_split',
                        f'burst {sorted(want, key=repr)} (arrivals {ts}) not delivered together: call at '
                        f'{hit[0]["start"]} got {hit[0]["args"]}'))
    return bad


def submission_patterns(n):
    """Which submission form each of the n arrivals uses; values are distinct ints, except in the
    'same' / 'alt' patterns, which re-submit equal values (the buffer holds a set)."""
    yield tuple(('put',) for _ in range(n))
    if n >= 2:
        yield tuple(('put_same',) for _ in range(n))
        yield tuple(('put_alt',) for _ in range(n))
    for pos in range(n):
        for kind in ('map_list', 'map_iter'):
            yield tuple((kind,) if i == pos else ('put',) for i in range(n))


def to_events(pat, gs):
    ev, nxt = [], 0
    for g, (kind,) in zip((0.0,) + tuple(gs), pat):
        if kind == 'put':
            ev.append((g, ('put', nxt)))
            nxt += 1
        elif kind == 'put_same':
            ev.append((g, ('put', 0)))
        elif kind == 'put_alt':
            ev.append((g, ('put', len(ev) % 2)))
        elif kind == 'map_list':
            ev.append((g, ('map_list', (nxt, nxt + 1))))
            nxt += 2
        else:
            ev.append((g, ('map_iter', (nxt, nxt + 1), None)))
            nxt += 2
    return ev


def fail_scripts(maxf, horizon=4):
    yield ()
    for k in range(1, maxf + 1):
        for pos in itertools.combinations(range(horizon), k):
            yield tuple(i in pos for i in range(horizon))


EMPTY_OPS = [('map_list', ()), ('map_iter', (), None), ('map_iter', (7, 8), 0), ('amap', (), None),
             ('amap', ((7, 0.0),), 0), ('await', 7, 0.0, True), ('put', 1), ('wait', True), ('wait', False)]


def run_empty(aiu, item):
    """Rounds in which nothing (or little) ends up buffered - empty iterables, producers failing before
    their first element - ended by the timer or by a forced flush: only 'never empty, never overlapping'."""
    _, T, first = item
    st = Stats()
    last = None
    for n in (1, 2, 3):
        for ops in itertools.product(EMPTY_OPS, repeat=n - 1):
            ops = (first,) + ops
            if not any(o[0] == 'wait' for o in ops) and n == 3:
                continue
            for gs in itertools.product((0.0, T / 4, T + EPS), repeat=n - 1):
                ev = list(zip((0.0,) + gs, ops))
                last = ev
                for dur in (0.0, T / 4):
                    obs, run = BF.execute(aiu, ev, T, (), dur)
                    st.executions += 1
                    st.transitions += len(ev) + len(obs.calls)
                    st.sig(('empty', tuple(ev), T, dur, BF.describe(obs)))
                    bad = []
                    if run.error is not None or run.horizon:
                        bad.append(('harness_abnormal', f'error={run.error!r}'))
                    if obs.overlap:
                        bad.append(('overlapping_invocations', repr([(c['start'], c['end']) for c in obs.calls])))
                    for c in obs.calls:
                        if not c['args']:
                            bad.append(('empty_invocation', f'call#{c["idx"]} at {c["start"]} with an empty set'))
                    for kind, detail in bad:
                        st.violation(kind, detail, {'events': ev, 'T': T, 'dur': dur, 'fails': ()})
    st.sample({'mode': 'rounds of empty / failing producers ended by the timer or a forced flush', 'T': T,
               'first': first, 'example': last})
    return st


def run_case(item):
    from aiuti import asyncio as aiu
    if item[0] == 'empty':
        return run_empty(aiu, item)
    n, T, g1, pats, durs, maxf = item
    st = Stats()
    G = grid(T)
    last = None
    for gs in itertools.product(G, repeat=n - 1):
        if n > 1 and gs[0] != g1:
            continue
        for pat in pats:
            ev = to_events(pat, gs)
            last = ev
            for dur in durs:
                for fails in fail_scripts(maxf):
                    obs, run = BF.execute(aiu, ev, T, fails, dur)
                    st.executions += 1
                    st.transitions += len(ev) + len(obs.calls)
                    st.sig((tuple(ev), T, dur, fails, BF.describe(obs)))
                    if len(obs.calls) > 1:
                        st.count('runs_with_several_invocations')
                    for kind, detail in check_log(obs, run, T):
                        st.violation(kind, detail, {'events': ev, 'T': T, 'dur': dur, 'fails': fails})
    st.sample({'n': n, 'T': T, 'first_gap': g1, 'example': last, 'durs': durs, 'max_failures': maxf})
    return st


def plan(tier):
    for first in EMPTY_OPS:
        yield ('empty', 1.0, first)
    Ts = (0.25, 1.0, 3.0)
    full_upto, ns = (4, (1, 2, 3, 4, 5)) if tier == 'quick' else (5, (1, 2, 3, 4, 5, 6))
    for T in Ts:
        durs = (0.0, T / 4, 2 * T)
        for n in ns:
            if n <= full_upto:
                pats, maxf = list(submission_patterns(n)), 2
            else:
                pats, maxf = [tuple(('put',) for _ in range(n))], 1
            if n == 1:
                yield (n, T, None, pats, durs, maxf)
            else:
                for g1 in grid(T):
                    yield (n, T, g1, pats, durs, maxf)


def main(tier):
    t0 = time.time()
    common.use_source()
    total = Stats()
    items = list(plan(tier))
    for st in common.pmap(run_case, items):
        total.merge(st)
    nmax = max(i[0] for i in items if i[0] != 'empty')
    return common.finish(
        PID, tier, total, t0,
        rule=(f'all arrival sequences of 1..{nmax} immediately-available submissions (plain / map(list) / '
              'map(iterator)) with gaps from {0,T/4,T-e,T,T+e,2.5T}, T in {1/4,1,3}, function duration '
              '{0,T/4,2T}, failure scripts with <= 2 failing invocations; invocation log checked for '
              'overlap, emptiness, no call < T after a preceding submission, idle bursts flushed together '
              'exactly at last+T (virtual time; ties within e/2 of a timer not judged for timing); plus all 1..3-step '
              'programs over empty iterables / producers failing before their first element / wait(cancel) for '
              'emptiness and overlap'),
        assumptions=['virtual clock', 'helper thread of map(iterator) runs to completion at submit time in '
                     'this single-thread engine (other interleavings: engine B in C03/C16)'])


def replay(path):
    from aiuti import asyncio as aiu
    doc = json.load(open(path))['replay']
    ev = [(g, tuple(tuple(x) if isinstance(x, list) else x for x in op)) for g, op in doc['events']]
    obs, run = BF.execute(aiu, ev, doc['T'], tuple(doc['fails']), doc['dur'])
    for s in obs.submits:
        print('submit', s['t'], s['kind'], s['values'])
    for c in obs.calls:
        print('call', c['idx'], 'start', c['start'], 'end', c['end'], c['args'], 'ok', c['ok'])
    bad = check_log(obs, run, doc['T'])
    for x in bad:
        print('PROBLEM', x)
    return 1 if bad else 0
