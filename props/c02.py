"""C02 - FileLock mutual exclusion across threads and objects (engine B) [processes: engine C, c13/px].

Worlds: 2..3 threads x 1..2 FileLock objects on one path x 1..2 rounds per thread; each round
picks an acquire form {acquire(), acquire(False), acquire(timeout=t), acquire_ctx(...), with
lock:} (object default timeout -1 or t), a critical-section length from the virtual grid (so
timed attempts both succeed and expire), reentrant rounds nest two deep. In-process locks are
scheduler shims, the OS lock is the REAL kernel flock (non-blocking probes; a blocking request
parks the thread until somebody unlocks/closes). Every interleaving with <= PB preemptions at
source-line granularity is executed.
"""
import itertools
import json
import os
import shutil
import tempfile
import time

from mc import common, tx
from mc.common import Stats
from mc.flshim import Env, kernel_lock_free

PID = 'C02'
D = 1.0

FORMS = [
    ('acq', None), ('nb', None), ('timed', D / 2), ('timed', 2 * D),
    ('ctx', None), ('ctx_nb', None), ('ctx_t', D / 2), ('with', None),
]


_NO_SHARED = {}


def no_shared_python_state(flmod):
    """Premise of the 'coarse' worlds (every thread uses its own FileLock object): no mutable state at module
    or class level, so Python lines between two environment calls touch one object's private state only and
    commute with everything the other threads do; interleaving at the environment calls (open / close / flock /
    in-process lock operations / sleep) then covers every line-level interleaving. If a tree introduces shared
    module/class state the premise fails and those worlds fall back to line granularity."""
    if 'v' not in _NO_SHARED:
        import threading
        mutable = (dict, list, set, bytearray, type(threading.Lock()), type(threading.RLock()))
        ok = True
        for ns in [vars(flmod)] + [vars(c) for c in vars(flmod).values()
                                   if isinstance(c, type) and c.__module__ == flmod.__name__]:
            for k, v in ns.items():
                if k.startswith('__') or k in ('_abc_impl',):
                    continue
                if isinstance(v, mutable) and not (k == '__all__'):
                    ok = False
        _NO_SHARED['v'] = ok
    return _NO_SHARED['v']


def run_world(flmod, w, path, prefix=(), expect=None):
    try:
        os.unlink(path)          # pristine lock file for every execution
    except FileNotFoundError:
        pass
    sched = tx.Sched(prefix, expect, horizon=100.0, budget=20000)
    sched.line_points = not (w.get('coarse') and no_shared_python_state(flmod))
    env = Env(sched)
    env.install(flmod)
    bad = []
    owners = []          # contenders that reported success and have not yet called release
    inside = []          # contenders inside the critical section
    log = []
    try:
        objs = [flmod.FileLock(path, timeout=w['default_timeout'], reentrant=w['reentrant'])
                for _ in range(w['nobj'])]

        def section(me, hold):
            if owners:
                bad.append(('two_holders', f'{me} acquired while {list(owners)} had reported success and not '
                                           f'released (t={sched.now})'))
            owners.append(me)
            sched.point('cs-enter')
            if inside:
                bad.append(('overlapping_critical_sections', f'{me} entered while {list(inside)} inside'))
            inside.append(me)
            if hold:
                sched.sleep(hold)
            else:
                sched.point('cs')
            if inside != [me]:
                bad.append(('overlapping_critical_sections', f'{me} found {list(inside)} inside at exit'))
            if kernel_lock_free(path):
                bad.append(('reported_success_without_the_lock',
                            f'{me} is inside the section it entered after a successful acquire, but the OS lock '
                            f'on the file is free (t={sched.now})'))
            inside.remove(me)
            owners.remove(me)

        def thread_body(ti, rounds):
            def body():
                off = w.get('offsets', {}).get(str(ti), 0.0)
                if off:
                    sched.sleep(off)
                for ri, (oi, form, t, hold) in enumerate(rounds):
                    lock = objs[oi % len(objs)]
                    me = (ti, ri)
                    depth = 2 if w['reentrant'] and form in ('acq', 'with') else 1
                    if form == 'stray':
                        # release() by a thread that does not hold the lock: must be a no-op, whatever the
                        # other threads are doing with the same object
                        lock.release()
                        log.append((me, form, 0))
                    elif form in ('acq', 'nb', 'timed'):
                        got = 0
                        for _ in range(depth):
                            if form == 'acq':
                                ok = lock.acquire()
                            elif form == 'nb':
                                ok = lock.acquire(False)
                            else:
                                ok = lock.acquire(timeout=t)
                            if ok is not True and ok is not False:
                                bad.append(('acquire_returned_non_bool', repr(ok)))
                            if not ok:
                                break
                            got += 1
                        log.append((me, form, got))
                        if got == depth:
                            section(me, hold)
                        for _ in range(got):
                            lock.release()
                    elif form.startswith('ctx'):
                        args = {'ctx': (), 'ctx_nb': (False,), 'ctx_t': (True, t)}[form]
                        try:
                            with lock.acquire_ctx(*args):
                                log.append((me, form, 1))
                                section(me, hold)
                        except TimeoutError:
                            log.append((me, form, 0))
                    else:
                        try:
                            with lock:
                                if depth == 2:
                                    with lock:
                                        log.append((me, form, 2))
                                        section(me, hold)
                                else:
                                    log.append((me, form, 1))
                                    section(me, hold)
                        except TimeoutError:
                            log.append((me, form, 0))
            return body
        for ti, rounds in enumerate(w['threads']):
            sched.spawn(thread_body(ti, rounds), name=f'T{ti}')
        aborted = sched.run()
        leftovers = len(env.open_fds)
        locked = [o.is_locked or o._thread_lock.locked_by is not None for o in objs]
    finally:
        for o in objs:
            o._lock_file_fd = None
        env.close_leftovers()
        env.uninstall(flmod)
    x = tx.Execution()
    x.choices, x.aborted, x.trace, x.sched = sched.choices, aborted, sched.trace, sched
    x.leaked = getattr(sched, 'leaked', 0)
    terr = [(t.name, repr(t.error)) for t in sched.threads if t.error is not None]
    if aborted:
        bad.append((f'execution_{aborted}', f'threads never finish ({aborted}); log {log}'))
    elif terr:
        bad.append(('thread_raised', repr(terr)))
    elif leftovers or any(locked):
        bad.append(('lock_left_held', f'{leftovers} descriptors open / (is_locked or in-process lock held)={locked} '
                                      f'after all rounds'))
    x.result = (bad, tuple(log))
    return x


def worlds(tier):
    q = tier == 'quick'
    out = []
    rounds1 = [(oi, f, t, hold) for oi in (0, 1) for (f, t) in FORMS for hold in (0.0, D)]
    # 2 threads x 1 round: all ordered pairs
    for reentrant in (False, True):
        for r0 in rounds1:
            for r1 in rounds1:
                if r0[0] == 1:
                    continue              # wlog thread 0 uses object 0
                if r0[3] == D and r1[1] in ('nb', 'timed', 'ctx_nb', 'ctx_t') and r1[3] == D and not reentrant \
                        and r0[1] in ('acq', 'with', 'ctx'):
                    # the second thread arrives exactly when the first one leaves its section
                    out.append(({'threads': [[r0], [r1]], 'nobj': 2, 'reentrant': reentrant, 'default_timeout': -1,
                                 'offsets': {'1': D}}, 1 if q or r0[1] != 'acq' else 2))
                if r0[3] != D and (q or r1[3] != D):
                    continue              # the first thread's section is long (thorough: or the second's is)
                if q and r1[3] == D and r1[1] not in ('acq', 'with'):
                    continue              # quick: the second thread's section is mostly short
                core = r0[1] == 'acq' and (r1[1], r1[2]) in (('acq', None), ('timed', 2 * D), ('with', None)) and r0[3] == D and r1[3] == 0.0
                dt = D / 2 if (r0[1] == 'with' or r1[1] == 'with') and r1[2] is None and r1[0] == 1 else -1
                out.append(({'threads': [[r0], [r1]], 'nobj': 2, 'reentrant': reentrant,
                             'default_timeout': dt}, 2 if core or (not q and r0[1] in ('acq', 'with') and r1[0] == 0) else 1))
    # default-timeout objects used through `with` (finite default: the block must not run unlocked)
    for dt in (0, D / 2):
        for r1form in ('with', 'acq', 'ctx'):
            for oi in (0, 1):
                out.append(({'threads': [[(0, 'with', None, D)], [(oi, r1form, None, 0.0)]], 'nobj': 2,
                             'reentrant': False, 'default_timeout': dt}, 2))
    # 2 threads x 2 rounds
    second = [(0, 'acq', None, 0.0), (1, 'nb', None, 0.0), (0, 'with', None, 0.0)]
    first = [(oi, f, t, 0.0) for oi in (0, 1) for (f, t) in (FORMS[:4] if q else FORMS[:6])]
    for reentrant in (False, True) if not q else (False,):
        for a in first:
            if a[0] == 1:
                continue
            for b in first:
                for s0 in second[:2 if q else 3]:
                    for s1 in second[:2 if q else 3]:
                        out.append(({'threads': [[a, s0], [b, s1]], 'nobj': 2, 'reentrant': reentrant,
                                     'default_timeout': -1}, 1))
    # 3 threads x 1 round (thorough: 4 threads)
    f3 = [('acq', None), ('nb', None), ('timed', D / 2), ('with', None)]
    r3 = [(oi, f, t, D) for oi in (0, 1) for (f, t) in f3]
    for combo in itertools.product(r3, repeat=3):
        if combo[0][0] == 1:
            continue
        if combo[0][1] == 'acq' and combo[1][1] in ('nb', 'timed') and combo[2][1] == 'acq':
            # first thread leaves at once, second holds long: a third party may slip in
            c0 = combo[0][:3] + (0.0,)
            out.append(({'threads': [[c0], [combo[1]], [combo[2]]], 'nobj': 2, 'reentrant': False,
                         'default_timeout': -1}, 1))
        if q and len({c[1] for c in combo}) == 1 and combo[0][1] != 'acq':
            continue
        out.append(({'threads': [[c] for c in combo], 'nobj': 2, 'reentrant': False, 'default_timeout': -1}, 1))
    # a stray release() (thread that holds nothing) while another thread's acquire on the same object is pending
    for reentrant in (False, True):
        for fa in (('acq', None), ('timed', 2 * D), ('with', None)):
            for so in (D / 2,):     # while the acquire waits for the OS lock (is_locked is False: a no-op);
            # NOT while it holds: release() is not owner-checked, any thread may release a held object
                out.append(({'threads': [[(1, 'acq', None, D)], [(0,) + fa + (D,)], [(0, 'stray', None, 0.0)]],
                             'nobj': 2, 'reentrant': reentrant, 'default_timeout': -1,
                             'offsets': {'1': D / 4, '2': so}}, 1))
        out.append(({'threads': [[(1, 'acq', None, D)], [(0, 'acq', None, D)], [(0, 'stray', None, 0.0)],
                                 [(0, 'nb', None, 0.0)]],
                     'nobj': 2, 'reentrant': reentrant, 'default_timeout': -1,
                     'offsets': {'1': D / 4, '2': D / 2, '3': 1.5 * D}}, 0 if q else 1))
    # descriptor-number reuse: every thread has its own object (coarse points, see no_shared_python_state)
    fa3 = [('nb', None), ('timed', D / 2)]
    fb3 = [('acq', None), ('timed', 2 * D)] if q else [('acq', None), ('timed', 2 * D), ('with', None), ('ctx', None)]
    for h in (0.0, D):
        for fa in fa3:
            for fbm in fb3:
                for hb in (D,):
                    out.append(({'threads': [[(0, 'acq', None, h)], [(1,) + fa + (0.0,)], [(2,) + fbm + (hb,)]],
                                 'nobj': 3, 'reentrant': False, 'default_timeout': -1, 'coarse': True},
                                2 if q else 3))
    # ... and a winner that re-acquires (two rounds) next to a failing attempt
    for fa in fa3 + [('timed', 2 * D)]:
        for h2 in (0.0, D):
            out.append(({'threads': [[(0, 'acq', None, 0.0), (0, 'acq', None, h2)], [(1,) + fa + (0.0,)]],
                         'nobj': 2, 'reentrant': False, 'default_timeout': -1, 'coarse': True}, 3 if q else 4))
    if not q:
        for combo in itertools.product([(0, 'acq', None, D), (1, 'acq', None, 0.0), (1, 'timed', D / 2, 0.0)], repeat=4):
            out.append(({'threads': [[c] for c in combo], 'nobj': 2, 'reentrant': False, 'default_timeout': -1}, 1))
    return out


def run_item(item):
    import aiuti.filelock as flmod
    chunk, fb, shard, nsh = item
    tx.install_monitoring(common.SRC)
    st = Stats()
    d = tempfile.mkdtemp(prefix='verif-c02-')
    path = os.path.join(d, 'file.lock')
    try:
        for w, pb in chunk:
            def run_one(prefix, expect, w=w):
                x = run_world(flmod, w, path, prefix, expect)
                if x.aborted == 'wall_timeout':
                    raise common.MachineryError(f'wall-clock timeout in world {w} prefix {prefix}')
                return x

            def on_exec(prefix, x, w=w):
                st.executions += 1
                st.transitions += x.sched.points
                bad, log = x.result
                st.sig((json.dumps(w, sort_keys=True), log, x.aborted))
                st.count('scheduling_choices', len(x.choices))
                if any(g for _, _, g in log) and any(not g for _, _, g in log):
                    st.count('executions_with_a_failed_and_a_successful_attempt')
                for kind, detail in bad:
                    st.violation(kind, f'[{w}] ' + detail, {'w': w, 'prefix': list(prefix)})
            try:
                if nsh == 1:
                    tx.explore(run_one, pb, on_exec=on_exec, fbound=fb, stop=lambda: st.extra.get('violations_total', 0) >= 12)
                else:
                    root = run_one((), None)
                    if shard == 0:
                        on_exec((), root)
                    for i, kid in enumerate(tx.children(root.choices, 0, pb, fb)):
                        if i % nsh == shard:
                            tx.explore(run_one, pb, root=kid, on_exec=on_exec, fbound=fb, stop=lambda: st.extra.get('violations_total', 0) >= 12)
            except tx.Divergence as e:
                raise common.MachineryError(f'world {w}: {e}')
        if not shard:
            st.sample({'world': chunk[0][0], 'preemption_bound': chunk[0][1], 'worlds_in_chunk': len(chunk)})
    finally:
        shutil.rmtree(d, ignore_errors=True)
    return st


def main(tier):
    t0 = time.time()
    common.use_source()
    ws = worlds(tier)
    heavy = [x for x in ws if x[1] >= 2]
    light = [x for x in ws if x[1] < 2]
    fb = 2 if tier == 'quick' else 3
    items = [([x], fb, sh, 8) for x in heavy for sh in range(8)] + \
        [(light[i:i + 6], fb, 0, 1) for i in range(0, len(light), 6)]
    total = Stats()
    for st in common.pmap(run_item, items):
        total.merge(st)
    total.count('worlds', len(ws))
    return common.finish(
        PID, tier, total, t0,
        rule=(f'{len(ws)} worlds: 2..3 (thorough 4) threads x 2 FileLock objects on one path x 1..2 rounds, acquire '
              'forms {acquire(), acquire(False), acquire(timeout), acquire_ctx(...), with, stray release()}, critical-section '
              'length {0, D}, reentrant (nested x2) and non-reentrant, default timeouts {-1, 0, D/2}; every '
              'schedule with <= PB preemptions (2 on core worlds, else 1; thorough 2) and <= FB non-default '
              f'choices at blocking points (FB={fb}), line-granular in aiuti/filelock.py + lock/flock/open/close/'
              'sleep operations, real kernel flock; plus own-object worlds (each thread its own FileLock incl. a third '
              'object, points only at environment calls, PB 2-3 / thorough 3-4) for descriptor-number reuse; oracle: a contender that reported success is the only one '
              'until it calls release, sections never overlap, failed contenders never enter, nothing left held'),
        assumptions=['one source line atomic', 'in-process locks are scheduler shims with threading.Lock/RLock '
                     'semantics', 'cross-process exclusion: engine C (C13 harness); the 16-process free-running '
                     'clause is sampling and not claimed'])


def replay(path):
    import aiuti.filelock as flmod
    doc = json.load(open(path))['replay']
    tx.install_monitoring(common.SRC)
    w = doc['w']
    w['threads'] = [[tuple(r) for r in t] for t in w['threads']]
    d = tempfile.mkdtemp(prefix='verif-c02-')
    try:
        res = []
        for _ in range(2):
            x = run_world(flmod, w, os.path.join(d, 'file.lock'), tuple(doc['prefix']), None)
            res.append(([b[0] for b in x.result[0]], x.result[1]))
        print('log', x.result[1], 'aborted', x.aborted)
        for b in x.result[0]:
            print('PROBLEM', b)
    finally:
        shutil.rmtree(d, ignore_errors=True)
    if res[0] != res[1]:
        print('machinery error: replay not deterministic')
        return 2
    return 1 if x.result[0] else 0
