"""C11 - same-key requests are computed once per retention window, then afresh (engine A).

Enumerated: timed sequences of N calls over key patterns (restricted growth over 3
symbols), gaps from a grid built around batch_timeout, the retention timeout R and the
answer instant, R in {0, small, large}, value / exception outcomes, default str(arg) keys
(including int 1 vs str '1', which collide by design) and explicit keys. Nobody is cancelled.
"""
import itertools
import json
import time

from mc import common
from mc.common import Stats
from mc.vloop import EPS
from . import batcher as B
from .c04 import growth_patterns

PID = 'C11'
BT = B.BT
H = EPS / 2


def outcome_obj(c):
    return c['out'][1] if c['out'] and len(c['out']) > 1 else None


def check_log(obs, run, R):
    bad = []
    for c in obs.calls:
        if c['out'] is None and c['t'] is not None:
            bad.append(('caller_never_answered', f'call#{c["i"]} key={c["key"]} t={c["t"]}'))
    if any(c['t'] is None for c in obs.calls):
        bad.append(('caller_never_answered', 'a chained caller never got to its next call'))
    if bad:
        return bad
    for b in obs.batches:
        keys = [k for k, _ in b['items']]
        if len(set(keys)) != len(keys):
            bad.append(('key_twice_in_batch', f'batch {b["bid"]} at {b["start"]}: {keys}'))
    bykey = {}
    for c in obs.calls:
        bykey.setdefault(c['key'], []).append(c)
    for k, cs in bykey.items():
        cs.sort(key=lambda c: (c['t'], c.get('seq', c['i'])))
        origins = []
        for c in cs:
            obj = outcome_obj(c)
            crashed = isinstance(obj, B.BatchRaise) and any(
                b['bid'] == obj.bid and b['raised'] is obj and any(kk == k for kk, _ in b['items'])
                for b in obs.batches)     # the batch function itself raised: that exception is the outcome
            if getattr(obj, 'key', None) != k and not crashed:
                bad.append(('wrong_outcome', f'call#{c["i"]} key={k} got {c["out"]!r}'))
                continue
            if not origins:
                role = 'origin'
            else:
                o = origins[-1]
                A = o['done_t']
                oobj = outcome_obj(o)
                if c['t'] < A - H:
                    role = 'sharer'
                else:
                    dt = c['t'] - A
                    if R > 0:
                        role = 'sharer' if dt < R - H else ('origin' if dt > R + H else None)
                    else:
                        role = 'origin' if dt > H else None
                if role is None and c.get('after') == o['i']:
                    # not a tie: this call was issued BY the original caller right after it was answered
                    role = 'origin' if R == 0 else 'sharer'
                if role is None:     # exact tie with the answer / the eviction timer: not judged
                    role = 'sharer' if obj is oobj else 'origin'
                if role == 'sharer' and obj is not oobj:
                    bad.append(('recomputed_inside_window',
                                f'key={k}: call#{c["i"]}@{c["t"]} arrived while request of call#{o["i"]} '
                                f'(answered@{A}, retention {R}) was pending/retained but got {obj!r} '
                                f'instead of {oobj!r}'))
                    role = 'origin'
                elif role == 'origin' and (obj is oobj or obj.bid == oobj.bid):
                    bad.append(('stale_result_after_window',
                                f'key={k}: call#{c["i"]}@{c["t"]} arrived {c["t"] - A} after the answer '
                                f'(retention {R}) but received the old result {obj!r}'))
                    continue
            if role == 'origin':
                origins.append(c)
        nitems = sum(1 for b in obs.batches for kk, _ in b['items'] if kk == k)
        if nitems != len(origins):
            bad.append(('work_items_mismatch',
                        f'key={k}: {nitems} batch items for {len(origins)} distinct computations expected '
                        f'(calls {[(c["i"], c["t"]) for c in cs]})'))
    return bad


def to_events(pat, gs, style):
    ev = []
    for i, (g, s) in enumerate(zip((0.0,) + tuple(gs), pat)):
        if style == 'int':
            ev.append((g, ('call', s)))
        elif style == 'mixed':       # 1 and '1' share the default key str(arg)
            ev.append((g, ('call', s if i % 2 == 0 else str(s))))
        else:
            ev.append((g, ('callk', ('payload', i), f'k{s}')))
    return ev


def run_case(item):
    from aiuti import asyncio as aiu
    if item[0] == 'adaptive':
        _, cfg, depth, keys = item
        st = Stats()
        last = None
        for ev, obs, run in B.adaptive_programs(aiu, cfg, {}, depth, keys, max_branch=16 if depth <= 4 else 8):
            last = ev
            st.executions += 1
            st.transitions += len(ev) + len(obs.batches)
            st.sig(('adaptive', tuple(ev), tuple(sorted(cfg.items())), B.describe(obs)))
            st.count('adaptive_programs')
            for kind, detail in check_log(obs, run, cfg['R']):
                st.violation(kind, detail, {'events': ev, 'cfg': cfg, 'script': {}, 'form': 'class'})
        st.sample({'mode': 'adaptive (arrivals around every armed timer deadline)', 'cfg': cfg, 'depth': depth,
                   'example': last})
        return st
    n, pat, gapsets, cfgs, styles, forms = item
    st = Stats()
    nk = max(pat) + 1
    scripts = [{}] + [{k: 'exc'} for k in range(nk)]
    if n <= 3:        # the batch function itself raises (before / after yielding for that key)
        scripts += [{k: beh} for k in range(nk) for beh in ('raise_before', 'raise_after')]
    for gs in gapsets:
        for style in styles:
            ev = to_events(pat, gs, style)
            for cfg in cfgs:
                for sc in scripts:
                    script = {(f'k{k}' if style == 'explicit' else str(k)): v for k, v in sc.items()}
                    for form in forms:
                        obs, run = B.execute(aiu, ev, cfg, script, form=form)
                        st.executions += 1
                        st.transitions += len(ev) + len(obs.batches)
                        st.sig((tuple(ev), cfg['mbs'], cfg['mcb'], cfg['batch_dur'], cfg['R'], tuple(script.items()), form, B.describe(obs)))
                        nit = sum(len(b['items']) for b in obs.batches)
                        if nit < len(ev):
                            st.count('runs_with_shared_requests')
                        if nit > len({c['key'] for c in obs.calls}):
                            st.count('runs_with_recomputation_after_window')
                        for kind, detail in check_log(obs, run, cfg['R']):
                            st.violation(kind, detail, {'events': ev, 'cfg': cfg, 'script': script, 'form': form})
    # chained programs: a caller re-requests its key immediately after being answered
    if n <= 3 and pat == tuple([0] * n):
        for cfg in cfgs:
            for nchain in (2, 3):
                for extra_gap in (None, 0.0, BT + EPS):
                    ev = [(0.0, ('chain', 0, nchain))] + ([(extra_gap, ('call', 0))] if extra_gap is not None else [])
                    for sc in ({}, {'0': 'exc'}, {'0': 'raise_before'}):
                        obs, run = B.execute(aiu, ev, cfg, sc)
                        st.executions += 1
                        st.transitions += len(obs.calls) + len(obs.batches)
                        st.sig(('chain', nchain, extra_gap, cfg['mbs'], cfg['mcb'], cfg['batch_dur'], cfg['R'],
                                tuple(sc.items()), B.describe(obs)))
                        st.count('chained_programs')
                        for kind, detail in check_log(obs, run, cfg['R']):
                            st.violation(kind, detail, {'events': ev, 'cfg': cfg, 'script': sc, 'form': 'class'})
    st.sample({'pattern': pat, 'gaps': gapsets[-1], 'styles': styles, 'cfgs': cfgs[:2]})
    return st


def plan(tier):
    for mbs in (1, 2, 3):
        for R in (0.0, 0.5, 2.0):
            for idur in (0.0, 0.5):
                yield ('adaptive', {'mbs': mbs, 'mcb': 2, 'R': R, 'batch_dur': 0.0, 'item_dur': idur},
                       4 if tier == 'quick' else 5, (0,))
            yield ('adaptive', {'mbs': mbs, 'mcb': 2, 'R': R, 'batch_dur': 0.0, 'item_dur': 0.5},
                   3 if tier == 'quick' else 4, (0, 1))
    Rs = (0.0, 0.5, 4.0)
    for R in Rs:
        base = {0.0, 0.25, BT - EPS, BT + EPS, 2 * (BT + R) + 0.25}
        if R:
            base |= {R - EPS, R, R + EPS, BT + R - EPS, BT + R, BT + R + EPS}
        grid = tuple(sorted(base))
        ns = (1, 2, 3, 4) if tier == 'quick' else (1, 2, 3, 4, 5)
        for n in ns:
            g = grid
            if n == 4 and tier == 'quick':
                g = tuple(x for x in grid if x not in (0.25, BT + R, R))
            if n == 5:
                g = tuple(sorted({0.0, BT + EPS, R + EPS, R - EPS, BT + R + EPS, BT + R - EPS} - {-EPS}))
            g = tuple(x for x in g if x >= 0)
            cfgs = [{'mbs': m, 'mcb': c, 'R': R, 'batch_dur': d}
                    for m in (1, 3) for c in (1, 2) for d in ((0.0,) if n >= 4 else (0.0, 0.5))]
            gapsets = list(itertools.product(g, repeat=n - 1))
            styles = ('int', 'mixed', 'explicit') if n <= 3 else ('mixed',)
            forms = ('class', 'func') if n <= 2 else ('class',)
            for pat in growth_patterns(n):
                if len(set(pat)) == n and n > 1:
                    continue            # all keys distinct: nothing shared (covered by C10)
                step = max(1, len(gapsets) // 6)
                for i in range(0, len(gapsets), step):
                    yield (n, pat, gapsets[i:i + step], cfgs, styles, forms)


def main(tier):
    t0 = time.time()
    common.use_source()
    total = Stats()
    items = list(plan(tier))
    for st in common.pmap(run_case, items):
        total.merge(st)
    nmax = max(i[0] for i in items if i[0] != 'adaptive')
    return common.finish(
        PID, tier, total, t0,
        rule=(f'all timed sequences of 1..{nmax} calls over repeating keys, gaps on a grid around batch_timeout, '
              'retention_timeout and the answer instant, retention in {0, 0.5, 4}, value / yielded-exception / '
              'batch-function-raises outcomes, '
              'default and explicit keys; each call classified as sharer/origin from virtual arrival vs answer '
              'time and checked by object identity and batch id; exact ties are not judged'),
        assumptions=['virtual clock', 'no caller cancelled (C09)'])


def replay(path):
    from aiuti import asyncio as aiu
    doc = json.load(open(path))['replay']
    ev = [(g, tuple(tuple(x) if isinstance(x, list) else x for x in op)) for g, op in doc['events']]
    obs, run = B.execute(aiu, ev, doc['cfg'], doc['script'], form=doc['form'])
    for b in obs.batches:
        print('batch', b['bid'], 'start', b['start'], [k for k, _ in b['items']])
    for c in obs.calls:
        print('call', c['i'], 'key', c['key'], 't', c['t'], '->', c['out'], 'at', c['done_t'])
    bad = check_log(obs, run, doc['cfg']['R'])
    for x in bad:
        print('PROBLEM', x)
    return 1 if bad else 0
