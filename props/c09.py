"""C09 - cancelling one batcher caller never disturbs the others (engine A).

Enumerated: event sequences over {call(key symbol), cancel(i)} (restricted-growth key
patterns, every position for the cancels, 1..2 cancels) with gaps from a grid that, with
per-item durations, covers 'queued', 'batch running before its result' and 'after its
result'; shared and distinct keys; result orders; retention 0 and > 0; value / exception
scripts; followed by fresh calls on old and new keys.
"""
import itertools
import json
import time

from mc import common
from mc.common import Stats
from mc.vloop import EPS
from . import batcher as B
from .c04 import allowed

PID = 'C09'
BT = B.BT


def check_log(obs, run, script):
    bad = []
    cancelled = {c['i'] for c in obs.calls if c['cancel_t'] is not None}
    for c in obs.calls:
        if c['out'] is None:
            bad.append(('caller_never_answered',
                        f'call#{c["i"]} key={c["key"]} ({c["phase"]}) issued@{c["t"]} still pending; '
                        f'cancelled callers: {sorted(cancelled)}'))
    if bad:
        return bad
    if run.error is not None or run.horizon:
        return [('harness_abnormal', repr(run.error))]
    for c in obs.calls:
        if c['i'] in cancelled:
            continue          # the cancelled caller itself may end cancelled or with its outcome
        cand = [b for b in obs.batches if any(k == c['key'] for k, _ in b['items'])]
        if not any(allowed(c, b, script) for b in cand):
            bad.append(('bystander_disturbed',
                        f'call#{c["i"]} key={c["key"]} ({c["phase"]}) was never cancelled but got {c["out"]!r}; '
                        f'cancelled callers: {sorted(cancelled)}; batches with its key: '
                        f'{[(b["bid"], b["yields"]) for b in cand]!r}'))
    if getattr(obs, 'loop_task_dead', False):
        bad.append(('processing_loop_died', 'the batcher background task finished'))
    return bad


def event_patterns(n_calls, n_cancels, syms=2):
    """Sequences with n_calls calls (restricted growth) and n_cancels cancels, each cancel
    after its target call, distinct targets."""
    total = n_calls + n_cancels

    def rec(seq, calls, used, cancelled):
        if len(seq) == total:
            if calls == n_calls:
                yield tuple(seq)
            return
        if calls < n_calls:
            for s in range(min(used + 1, syms)):
                yield from rec(seq + [('call', s)], calls + 1, max(used, s + 1), cancelled)
        if len(cancelled) < n_cancels and (total - len(seq)) > (n_calls - calls) - 0:
            for j in range(calls):
                if j not in cancelled:
                    yield from rec(seq + [('cancel', j)], calls, used, cancelled | {j})
    for p in rec([], 0, 0, frozenset()):
        if sum(1 for e in p if e[0] == 'cancel') == n_cancels:
            yield p


def run_case(item):
    from aiuti import asyncio as aiu
    pat, gapsets, cfgs, scripts, fresh = item
    st = Stats()
    for gs in gapsets:
        ev = [(g, op) for g, op in zip((0.0,) + tuple(gs), pat)]
        for cfg in cfgs:
            for script in scripts:
                obs, run = B.execute(aiu, ev, cfg, script, tail=0.25, fresh=fresh)
                st.executions += 1
                st.transitions += len(ev) + len(fresh) + sum(len(b['yields']) + 1 for b in obs.batches)
                st.sig((tuple(ev), tuple(sorted(cfg.items())), tuple(script.items()), B.describe(obs)))
                if any(c['out'] == ('cancelled',) for c in obs.calls):
                    st.count('runs_where_a_cancel_took_effect')
                if any(c['out'] == ('cancelled',) for c in obs.calls) and len(
                        {c['key'] for c in obs.calls if c['phase'] == 'main'}) < sum(
                        1 for c in obs.calls if c['phase'] == 'main'):
                    st.count('runs_cancel_with_shared_key')
                for kind, detail in check_log(obs, run, script):
                    st.violation(kind, detail, {'events': ev, 'cfg': cfg, 'script': script, 'fresh': fresh})
    st.sample({'pattern': pat, 'gaps': gapsets[-1], 'cfgs': len(cfgs), 'scripts': scripts, 'fresh': fresh})
    return st


def plan(tier):
    grid = (0.0, 0.25, BT + EPS) if tier == 'quick' else (0.0, 0.25, BT - EPS, BT + EPS, 2.5)
    shapes = [(2, 1), (3, 1), (3, 2)] if tier == 'quick' else [(2, 1), (3, 1), (3, 2), (4, 1)]
    fresh = (('call', 0), ('call', 1), ('call', 2), ('call', 7))
    scripts = [{}, {'0': 'exc'}, {'1': 'exc'}]
    for n_calls, n_cancels in shapes:
        cfgs = [{'mbs': m, 'mcb': c, 'R': r, 'order': o, 'item_dur': d}
                for m in (1, 2, 3) if m <= n_calls
                for c in ((1, 2) if n_calls <= 3 else (1,))
                for r in (0.0, 2.0) for o in ('fwd', 'rev') for d in (0.0, 0.5)]
        g = grid if (n_calls + n_cancels) <= 4 or tier != 'quick' else (0.0, 0.25, BT + EPS)
        if tier != 'quick' and n_calls + n_cancels >= 5:
            g = (0.0, 0.25, BT + EPS)
        for pat in event_patterns(n_calls, n_cancels, syms=3 if n_calls == 3 and n_cancels == 1 else 2):
            # a cancel may also land 1 or 2 loop iterations after the previous event (same instant)
            choices = [tuple(g) + ((('it', 1), ('it', 2)) if op[0] == 'cancel' and len(pat) <= 4 else ())
                       for op in pat[1:]]
            gapsets = list(itertools.product(*choices))
            step = max(1, len(gapsets) // 4)
            for i in range(0, len(gapsets), step):
                yield (pat, gapsets[i:i + step], cfgs, scripts, fresh)


def main(tier):
    t0 = time.time()
    common.use_source()
    total = Stats()
    items = list(plan(tier))
    for st in common.pmap(run_case, items):
        total.merge(st)
    return common.finish(
        PID, tier, total, t0,
        rule=('all event sequences of 2..4 calls (keys repeat) and 1..2 cancel events at every position, gaps '
              'on a grid x per-item durations (so the cancel lands while queued / while the batch runs before '
              'and after the result), x configs x retention {0, 2} x result order x value/exception scripts, '
              'followed by three fresh calls; every never-cancelled caller is matched by identity against '
              'what the batch function yielded for its key'),
        assumptions=['virtual clock', 'a cancelled caller itself may end cancelled or with its outcome'])


def replay(path):
    from aiuti import asyncio as aiu
    doc = json.load(open(path))['replay']
    ev = [(g, tuple(op)) for g, op in doc['events']]
    fresh = tuple(tuple(x) for x in doc['fresh'])
    obs, run = B.execute(aiu, ev, doc['cfg'], doc['script'], tail=0.25, fresh=fresh)
    for b in obs.batches:
        print('batch', b['bid'], 'start', b['start'], [k for k, _ in b['items']], 'yields', b['yields'])
    for c in obs.calls:
        print('call', c['i'], 'key', c['key'], c['phase'], 't', c['t'], 'cancel@', c['cancel_t'], '->', c['out'],
              'at', c['done_t'])
    bad = check_log(obs, run, doc['script'])
    for x in bad:
        print('PROBLEM', x)
    return 1 if bad else 0
