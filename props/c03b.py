"""C03, engine B part: foreign submitting threads (see props/bufmc.py)."""
from . import bufmc


def run_into(total, tier):
    bufmc.run_into(total, tier, 'C03')


def replay_doc(doc):
    return bufmc.replay_doc(doc, 'C03')
