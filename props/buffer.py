"""Shared engine-A harness for buffer_until_timeout / BufferAsyncCalls (C03, C07, C08, C15)."""
import asyncio
import concurrent.futures

from mc.vt import run_main
from mc.vloop import EPS


class InlineExecutor:
    """Deterministic stand-in for ThreadPoolExecutor in single-thread (engine A) worlds:
    the submitted function runs to completion inside submit() - i.e. the schedule in which
    the helper thread finishes before the consumer's first read. Other schedules: engine B."""

    def __init__(self, *a, **k):
        pass

    def submit(self, fn, *a, **k):
        f = concurrent.futures.Future()
        try:
            f.set_result(fn(*a, **k))
        except BaseException as e:   # noqa
            f.set_exception(e)
        return f

    def shutdown(self, wait=True, **k):
        pass

    def __enter__(self):
        return self

    def __exit__(self, *a):
        return False


class ProducerError(Exception):
    pass


class FuncError(Exception):
    pass


class Obs:
    def __init__(self):
        self.calls = []       # dict(idx, start, end, args(tuple sorted), ok)
        self.submits = []     # dict(t, kind, values(list), ok_prefix(list), i)
        self.waits = []       # dict(t, cancel, ret_t, delivered_at_ret(set), submitted_before(set))
        self.running = 0
        self.overlap = False
        self.delivered = set()     # union of successful, completed calls so far
        self.shutdown_states = None


def execute(aiu, events, T, fails=(), dur=0.0, *, form='direct', settle=None, end_at=None,
            tie=1, cancel_task_at=None):
    """Run one buffer program.
    events: [(gap, op)], op:
       ('put', x) | ('await', x, delay, fail) | ('map_list', (xs)) | ('map_iter', (xs), failpos|None)
       ('amap', ((x, delay), ...), failpos|None) | ('wait', cancel_bool)
    fails: tuple of bools - fails[i] => i-th invocation of the wrapped function raises
    dur: duration of the wrapped function
    end_at: if not None, main() returns at that virtual instant (shutdown sweep), else after settling.
    Returns (obs, run)."""
    obs = Obs()
    saved = aiu.ThreadPoolExecutor
    aiu.ThreadPoolExecutor = InlineExecutor

    async def main():
        loop = asyncio.get_running_loop()
        world = loop._world

        async def func(args):
            idx = len(obs.calls)
            rec = {'idx': idx, 'start': world.now, 'end': None, 'args': tuple(sorted(args, key=repr)),
                   'ok': None}
            obs.calls.append(rec)
            obs.running += 1
            if obs.running > 1:
                obs.overlap = True
            try:
                if dur:
                    await asyncio.sleep(dur)
            finally:
                obs.running -= 1
            rec['end'] = world.now
            rec['args_end'] = tuple(sorted(args, key=repr))
            if idx < len(fails) and fails[idx]:
                rec['ok'] = False
                raise FuncError(idx)
            rec['ok'] = True
            obs.delivered |= set(rec['args_end'])

        if form == 'direct':
            buf = aiu.buffer_until_timeout(func, timeout=T)
        elif form == 'deco':
            buf = aiu.buffer_until_timeout(timeout=T)(func)
        else:
            buf = aiu.BufferAsyncCalls(func, timeout=T)
        obs.buf = buf
        wait_tasks = []

        def submitted_so_far():
            s = set()
            for sub in obs.submits:
                s |= set(sub['ok_prefix'])
            return s

        async def waiter(rec, cancel):
            await buf.wait(cancel=cancel)
            rec['ret_t'] = world.now
            rec['delivered_at_ret'] = set(obs.delivered)

        async def driver():
            for gap, op in events:
                if gap:
                    await asyncio.sleep(gap)
                kind = op[0]
                if kind in ('put', 'put_late'):
                    obs.submits.append({'t': world.now, 'kind': kind, 'values': [op[1]], 'ok_prefix': [op[1]],
                                        'immediate': True})
                    buf(op[1])
                    if kind == 'put_late':      # arrives only op[2] loop iterations before the next timer
                        world.creep_in = op[2]
                elif kind == 'await':
                    _, x, delay, fail = op

                    async def aw(x=x, delay=delay, fail=fail):
                        if delay:
                            await asyncio.sleep(delay)
                        if fail:
                            raise ProducerError(x)
                        return x
                    obs.submits.append({'t': world.now, 'kind': kind, 'values': [x],
                                        'ok_prefix': [] if fail else [x], 'immediate': False})
                    buf.await_(aw())
                elif kind == 'map_list':
                    xs = list(op[1])
                    obs.submits.append({'t': world.now, 'kind': kind, 'values': xs, 'ok_prefix': xs,
                                        'immediate': True})
                    buf.map(xs)
                elif kind == 'map_iter':
                    xs, failpos = list(op[1]), op[2]

                    def gen(xs=xs, failpos=failpos):
                        for i, x in enumerate(xs):
                            if failpos is not None and i == failpos:
                                raise ProducerError(i)
                            yield x
                        if failpos is not None and failpos >= len(xs):
                            raise ProducerError('end')
                    pre = xs if failpos is None else xs[:failpos]
                    obs.submits.append({'t': world.now, 'kind': kind, 'values': xs, 'ok_prefix': pre,
                                        'immediate': True})
                    buf.map(gen())
                elif kind == 'map_reiter':
                    xs, failpos = list(op[1]), op[2]

                    class ReIterable:        # has __iter__ but is not an Iterator: iterated inline
                        def __iter__(self, xs=xs, failpos=failpos):
                            for i, x in enumerate(xs):
                                if failpos is not None and i == failpos:
                                    raise ProducerError(i)
                                yield x
                            if failpos is not None and failpos >= len(xs):
                                raise ProducerError('end')
                    pre = xs if failpos is None else xs[:failpos]
                    obs.submits.append({'t': world.now, 'kind': kind, 'values': xs, 'ok_prefix': pre,
                                        'immediate': True})
                    buf.map(ReIterable())
                elif kind == 'amap':
                    items, failpos = list(op[1]), op[2]

                    async def agen(items=items, failpos=failpos):
                        for i, (x, delay) in enumerate(items):
                            if delay:
                                await asyncio.sleep(delay)
                            if failpos is not None and i == failpos:
                                raise ProducerError(i)
                            yield x
                        if failpos is not None and failpos >= len(items):
                            raise ProducerError('end')
                    xs = [x for x, _ in items]
                    pre = xs if failpos is None else xs[:failpos]
                    obs.submits.append({'t': world.now, 'kind': kind, 'values': xs, 'ok_prefix': pre,
                                        'immediate': all(d == 0 for _, d in items)})
                    buf.amap(agen())
                elif kind == 'put_wait':       # submit and wait back-to-back inside one coroutine step
                    x, cancel = op[1], op[2]
                    rec = {'t': world.now, 'cancel': cancel, 'ret_t': None, 'delivered_at_ret': None,
                           'submitted_before': submitted_so_far() | {x}}
                    obs.waits.append(rec)

                    async def put_wait(rec=rec, x=x, cancel=cancel):
                        obs.submits.append({'t': world.now, 'kind': 'put', 'values': [x], 'ok_prefix': [x],
                                            'immediate': True})
                        buf(x)
                        await buf.wait(cancel=cancel)
                        rec['ret_t'] = world.now
                        rec['delivered_at_ret'] = set(obs.delivered)
                    wait_tasks.append(loop.create_task(put_wait()))
                elif kind == 'wait':
                    rec = {'t': world.now, 'cancel': op[1], 'ret_t': None, 'delivered_at_ret': None,
                           'submitted_before': submitted_so_far()}
                    obs.waits.append(rec)
                    wait_tasks.append(loop.create_task(waiter(rec, op[1])))
                elif kind == 'cancel_bg':
                    buf._waiting.cancel()

        drv = loop.create_task(driver())
        if end_at is not None:
            await asyncio.sleep(end_at)
            obs.shutdown_state = {
                'driver_done': drv.done(),
                'getting_armed': bool(buf._getting and not buf._getting.done()),
                'func_running': obs.running > 0,
            }
            return True
        await drv
        await asyncio.sleep(settle if settle is not None else 60 * T + 60 * dur + 50)
        return True

    try:
        run = run_main(main, tie=tie)
    finally:
        aiu.ThreadPoolExecutor = saved
    return obs, run


def describe(obs):
    return (tuple((c['start'], c['end'], c['args'], c['ok']) for c in obs.calls),
            tuple((w['t'], w['cancel'], w['ret_t']) for w in obs.waits))
