"""C18 - split() partitions lazily, evaluating each element once; exhaust() (engine D).

Enumerated: every source of length 0..L over {0,1,2} given as list (re-iterable, iter() calls
counted) and as one-shot iterator (next() calls counted); conditions: every truth-pattern
callable over the value domain returning non-bool truthy/falsy objects, stateful callables,
and every boolean list/iterator of length len-1, len, len+1; and EVERY interleaving of next()
calls on the two result iterators (DFS over pull sequences; every prefix is checked, which
covers abandoning either iterator at any point).
"""
import itertools
import json
import time

from mc import common
from mc.common import Stats

PID = 'C18'
TRUTHY = ['x', 2, True]
FALSY = ['', 0, None, False]


class CountingList:
    """Re-iterable source that counts how many times it is iterated and what is pulled."""

    def __init__(self, data):
        self.data, self.iters, self.pulled = list(data), 0, 0

    def __iter__(self):
        self.iters += 1
        for x in self.data:
            self.pulled += 1
            yield x


class CountingIter:
    """One-shot iterator counting successful pulls."""

    def __init__(self, data):
        self._it, self.pulled, self.iters = iter(list(data)), 0, 1

    def __iter__(self):
        return self

    def __next__(self):
        x = next(self._it)
        self.pulled += 1
        return x


def make_cond(spec, log):
    kind = spec[0]
    if kind == 'call':          # pure callable: value -> object of given truthiness
        table = spec[1]

        def f(x):
            log.append(x)
            return (TRUTHY[x % 3] if table[x] else FALSY[x % 4])
        return f, None
    if kind == 'stateful':      # truthiness depends on the number of calls so far
        period = spec[1]
        n = [0]

        def g(x):
            log.append(x)
            n[0] += 1
            return 'x' if n[0] % period == 0 else 0
        return g, None
    vals = [(TRUTHY[i % 3] if b else FALSY[i % 4]) for i, b in enumerate(spec[1])]
    if kind == 'blist':
        return list(vals), vals
    return iter(list(vals)), vals


def truth_of(spec, src):
    """Reference condition stream (list of bools) for a source."""
    kind = spec[0]
    if kind == 'call':
        return [bool(spec[1][x]) for x in src]
    if kind == 'stateful':
        return [((i + 1) % spec[1] == 0) for i in range(len(src))]
    return [bool(b) for b in spec[1]]


def explore(split, srcdata, srcform, spec, st):
    """DFS over all pull interleavings; each path re-builds fresh objects (stateless search)."""
    conds = truth_of(spec, srcdata)
    n = min(len(srcdata), len(conds))
    ref_t = [x for x, c in zip(srcdata, conds) if c]
    ref_f = [x for x, c in zip(srcdata, conds) if not c]
    idx_t = [i for i, c in enumerate(conds[:n]) if c]
    idx_f = [i for i, c in enumerate(conds[:n]) if not c]
    problems = []

    def run(path):
        """Replay a pull path from scratch; returns (done_t, done_f) or records a problem."""
        log = []
        src = CountingList(srcdata) if srcform == 'list' else CountingIter(srcdata)
        cond, _ = make_cond(spec, log)
        try:
            res = split(src, cond)
            a, b = res
        except BaseException as e:   # noqa
            problems.append(('split_raised', repr(e), path))
            return None
        got = {'T': [], 'F': []}
        done = {'T': False, 'F': False}
        its = {'T': a, 'F': b}
        for side in path:
            try:
                v = next(its[side])
                got[side].append(v)
            except StopIteration:
                done[side] = True
            except BaseException as e:   # noqa
                problems.append(('next_raised', f'{type(e).__name__}: {e}', path))
                return None
            ref = ref_t if side == 'T' else ref_f
            idxs = idx_t if side == 'T' else idx_f
            g = got[side]
            if g != ref[:len(g)] or (done[side] and len(g) != len(ref)):
                problems.append(('wrong_partition', f'side {side}: got {g} done={done[side]} expected {ref}', path))
                return None
            # laziness: source examined at most one element beyond what this history needs
            need = 0
            for s2 in 'TF':
                ii = idx_t if s2 == 'T' else idx_f
                if done[s2]:
                    need = max(need, n + 1)
                elif got[s2]:
                    need = max(need, ii[len(got[s2]) - 1] + 1)
            if src.pulled > min(len(srcdata), need + 1):
                problems.append(('not_lazy', f'{src.pulled} source elements pulled after {path}, '
                                             f'needed at most {need + 1}', path))
                return None
            if src.iters > 1:
                problems.append(('source_iterated_twice', f'iter() called {src.iters} times', path))
                return None
            if spec[0] in ('call', 'stateful'):
                if log != srcdata[:len(log)]:
                    problems.append(('predicate_calls_wrong', f'predicate saw {log}, source {srcdata}', path))
                    return None
        if spec[0] in ('call', 'stateful') and done['T'] and done['F'] and log != srcdata:
            problems.append(('predicate_not_once_per_element', f'predicate saw {log}, source {srcdata}', path))
        return done

    def dfs(path):
        st.executions += 1
        st.transitions += len(path)
        done = run(path)
        if done is None or problems:
            return
        if done['T'] and done['F']:
            st.count('complete_interleavings')
            return
        for side in 'TF':
            if not done[side]:
                dfs(path + side)
                if problems:
                    return
    dfs('')
    return problems


def cond_specs(L, vals_used):
    for table in itertools.product((0, 1), repeat=3):
        yield ('call', table)
    yield ('stateful', 2)
    yield ('stateful', 3)
    for ln in {max(0, L - 1), L, L + 1}:
        for bits in itertools.product((0, 1), repeat=ln):
            yield ('blist', bits)
            yield ('biter', bits)


def run_case(item):
    from aiuti.itertools import split, exhaust
    L, first = item
    st = Stats()
    for rest in itertools.product((0, 1, 2), repeat=max(0, L - 1)):
        srcdata = list(first + rest)[:L]
        for form in ('list', 'iter'):
            for spec in cond_specs(L, None):
                probs = explore(split, srcdata, form, spec, st)
                st.sig((tuple(srcdata), form, spec, len(probs)))
                for kind, detail, path in probs:
                    st.violation(kind, detail, {'source': srcdata, 'form': form, 'cond': spec, 'pulls': path})
        # exhaust(): consumes everything, returns None
        for form in ('list', 'iter', 'split'):
            if form == 'split':
                a, b = split(list(srcdata), lambda x: x % 2 == 0)
                objs = [a, b]
            else:
                objs = [CountingList(srcdata) if form == 'list' else CountingIter(srcdata)]
            for o in objs:
                it = iter(o)
                r = exhaust(it)
                st.executions += 1
                left = list(it)
                if r is not None or left or (hasattr(o, 'pulled') and o.pulled != len(srcdata)):
                    st.violation('exhaust_wrong', f'returned {r!r}, left {left}', {'source': srcdata, 'form': form})
    st.sample({'source_length': L, 'first_element': first, 'forms': ['list', 'iter'],
               'conditions': 'all truth-table callables, stateful, bool lists/iters of len L-1..L+1',
               'pulls': 'every interleaving'})
    return st


def main(tier):
    t0 = time.time()
    common.use_source()
    Lmax = 4 if tier == 'quick' else 6
    items = [(0, ())] + [(L, (f,)) for L in range(1, Lmax + 1) for f in (0, 1, 2)]
    total = Stats()
    for st in common.pmap(run_case, items):
        total.merge(st)
    return common.finish(
        PID, tier, total, t0,
        rule=(f'all sources of length 0..{Lmax} over {{0,1,2}} (list / one-shot iterator) x all truth-table '
              'callables, 2 stateful callables, every boolean list and iterator of length len-1..len+1 '
              '(non-bool truthy/falsy values) x every interleaving of next() on the two results (DFS, each '
              'prefix checked against the list-comprehension reference, predicate call log, source pull '
              'count); exhaust() on lists, iterators and split results'),
        assumptions=['sequential code: no scheduling involved'])


def replay(path):
    from aiuti.itertools import split
    doc = json.load(open(path))['replay']
    st = Stats()
    spec = (doc['cond'][0], tuple(doc['cond'][1]) if isinstance(doc['cond'][1], list) else doc['cond'][1])
    probs = explore(split, doc['source'], doc['form'], spec, st)
    for p in probs:
        print('PROBLEM', p)
    return 1 if probs else 0
