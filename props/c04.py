"""C04 - every batcher caller is answered, with exactly its own key's outcome (engine A).

Enumerated: timed programs of N calls whose arguments follow every restricted-growth
pattern over a 3-symbol domain (so keys repeat), gaps from a grid straddling
batch_timeout, x (max_batch_size, max_concurrent_batches, retention_timeout) x
batch-function scripts (per key: value / Exception instance / StopIteration instance /
omitted / raise before / raise after / yielded twice / unknown key; at most D keys deviate
from 'value') x result order x per-item duration; class form, function form, and a
two-instance world (two batchers, same keys) so that state shared between instances shows.
"""
import itertools
import json
import time

from mc import common
from mc.common import Stats
from mc.vloop import EPS
from . import batcher as B

PID = 'C04'
BT = B.BT
BEHAVIOURS = ['exc', 'omit', 'raise_before', 'raise_after', 'twice', 'unknown', 'stopiter']


def growth_patterns(n, syms=3):
    def rec(i, cur, used):
        if i == n:
            yield tuple(cur)
            return
        for s in range(min(used + 1, syms)):
            cur.append(s)
            yield from rec(i + 1, cur, max(used, s + 1))
            cur.pop()
    yield from rec(0, [], 0)


def scripts(nkeys, maxdev):
    keys = [str(k) for k in range(nkeys)]
    yield {}
    for d in range(1, maxdev + 1):
        for ks in itertools.combinations(keys, d):
            for bs in itertools.product(BEHAVIOURS, repeat=d):
                yield dict(zip(ks, bs))


def allowed(c, b, script):
    """Does outcome of caller c match what batch b produced for c's key? -> bool"""
    k, out = c['key'], c['out']
    ys = b['yields']
    p = next((i for i, (yk, _) in enumerate(ys) if yk == k), None)
    # index of the first protocol fault (unknown key or duplicate) in the yield sequence
    q, seen = None, set()
    for i, (yk, _) in enumerate(ys):
        if yk == '?unknown?' or yk in seen:
            q = i
            break
        seen.add(yk)
    if p is not None and (q is None or p < q):
        obj = ys[p][1]
        if type(obj) is StopIteration:
            return out[0] == 'exc'        # cannot be raised through a Future; any error, not a hang
        if isinstance(obj, Exception):
            return out[0] == 'exc' and out[1] is obj
        return out[0] == 'ret' and out[1] is obj
    if q is not None:
        # protocol fault before this key was answered: an error, or its own key's value
        if out[0] == 'exc':
            return True
        return out[0] == 'ret' and any(yk == k and o is out[1] for yk, o in ys)
    if b['raised'] is not None:
        return out[0] == 'exc' and out[1] is b['raised']
    # omitted
    return out[0] == 'exc' and not isinstance(out[1], (B.YExc, B.BatchRaise, StopIteration))


def check_log(obs, run, script):
    bad = []
    for c in obs.calls:
        if c['out'] is None:
            bad.append(('caller_never_answered',
                        f'call#{c["i"]} key={c["key"]} inst={c["inst"]} at t={c["t"]} still pending '
                        f'(hang={run.hang})'))
    if bad:
        return bad
    if run.error is not None or run.horizon:
        bad.append(('harness_abnormal', repr(run.error)))
        return bad
    for c in obs.calls:
        cand = [b for b in obs.batches if b['inst'] == c['inst'] and any(k == c['key'] for k, _ in b['items'])]
        if not any(allowed(c, b, script) for b in cand):
            bad.append(('wrong_outcome',
                        f'call#{c["i"]} key={c["key"]} inst={c["inst"]} got {c["out"]!r}; batches with its '
                        f'key: {[(b["bid"], b["yields"], b["raised"]) for b in cand]!r}'))
    return bad


def run_case(item):
    from aiuti import asyncio as aiu
    if item[0] == 'adaptive':
        _, cfg, depth, keys = item
        st = Stats()
        last = None
        for ev, obs, run in B.adaptive_programs(aiu, cfg, {}, depth, keys, max_branch=16 if depth <= 4 else 8):
            last = ev
            st.executions += 1
            st.transitions += len(ev) + sum(len(b['yields']) + 1 for b in obs.batches)
            st.sig(('adaptive', tuple(ev), tuple(sorted(cfg.items())), B.describe(obs)))
            st.count('adaptive_programs')
            for kind, detail in check_log(obs, run, {}):
                st.violation(kind, detail, {'events': ev, 'cfg': cfg, 'script': {}, 'form': 'class'})
        st.sample({'mode': 'adaptive (arrivals around every armed timer deadline)', 'cfg': cfg, 'depth': depth,
                   'example': last})
        return st
    n, pat, gapsets, cfgs, maxdev, orders, durs, form, ninst = item
    st = Stats()
    nkeys = max(pat) + 1
    for gs in gapsets:
        if ninst == 1:
            ev = [(g, ('call', a)) for g, a in zip((0.0,) + gs, pat)]
        else:
            ev = [(g, ('calli', a, i % ninst)) for i, (g, a) in enumerate(zip((0.0,) + gs, pat))]
        for script in scripts(nkeys, maxdev):
            for cfg0 in cfgs:
                for order in orders:
                    for idur in durs:
                        cfg = dict(cfg0, order=order, item_dur=idur, ninst=ninst)
                        obs, run = B.execute(aiu, ev, cfg, script, form=form)
                        st.executions += 1
                        st.transitions += len(ev) + sum(len(b['yields']) + 1 for b in obs.batches)
                        st.sig((tuple(ev), tuple(sorted(script.items())), cfg0['mbs'], cfg0['mcb'], cfg0['R'],
                                order, idur, form, B.describe(obs)))
                        if any(c['out'] and c['out'][0] == 'exc' for c in obs.calls):
                            st.count('runs_with_a_raising_caller')
                        for kind, detail in check_log(obs, run, script):
                            st.violation(kind, detail, {'events': ev, 'cfg': cfg, 'script': script, 'form': form})
    st.sample({'args': pat, 'gaps': gapsets[-1], 'form': form, 'instances': ninst,
               'scripts': f'<= {maxdev} deviating keys of {nkeys}', 'cfgs': len(cfgs)})
    return st


def plan(tier):
    full = B.GRID
    small = (0.0, BT - EPS, BT + EPS)
    if tier == 'quick':
        spec = [  # n, gaps, maxdev, orders, durs, forms
            (1, full, 1, ('fwd',), (0.0, 0.5), ('class', 'func')),
            (2, full, 2, ('fwd', 'rev'), (0.0, 0.5), ('class', 'func')),
            (3, small, 2, ('fwd', 'rev', 'rot1'), (0.0, 0.5), ('class',)),
            (4, small, 1, ('fwd', 'rev'), (0.0,), ('class',)),
        ]
        mbs, mcb, Rs = (1, 2, 3), (1, 2), (0.0, 2.0)
    else:
        spec = [
            (1, full, 1, ('fwd',), (0.0, 0.5), ('class', 'func')),
            (2, full, 2, ('fwd', 'rev'), (0.0, 0.5), ('class', 'func')),
            (3, small, 2, ('fwd', 'rev', 'rot1'), (0.0, 0.5), ('class', 'func')),
            (3, full, 1, ('fwd', 'rev'), (0.0,), ('class',)),
            (4, small, 1, ('fwd', 'rev', 'rot1'), (0.0, 0.5), ('class',)),
            (5, small, 1, ('fwd',), (0.0,), ('class',)),
        ]
        mbs, mcb, Rs = (1, 2, 3, 5), (1, 2, 3), (0.0, 2.0)
    for n, gaps, maxdev, orders, durs, forms in spec:
        cfgs = [{'mbs': a, 'mcb': b, 'R': r} for a in mbs for b in mcb for r in Rs if a <= n + 1]
        gapsets = list(itertools.product(gaps, repeat=n - 1))
        for pat in growth_patterns(n):
            for form in forms:
                # split the gap sets into chunks to balance the load
                step = max(1, len(gapsets) // 8)
                for i in range(0, len(gapsets), step):
                    yield (n, pat, gapsets[i:i + step], cfgs, maxdev, orders, durs, form, 1)
    # adaptive pass: same-key (and two-key) sequences with arrivals around every armed timer
    for mbs in (1, 2, 3):
        for R in (0.0, 2.0):
            for idur in (0.0, 0.5):
                yield ('adaptive', {'mbs': mbs, 'mcb': 2, 'R': R, 'order': 'fwd', 'item_dur': idur, 'ninst': 1},
                       4 if tier == 'quick' else 5, (0,))
            yield ('adaptive', {'mbs': mbs, 'mcb': 2, 'R': R, 'order': 'fwd', 'item_dur': 0.5, 'ninst': 1},
                   3 if tier == 'quick' else 4, (0, 1))
    # two-instance worlds: same keys sent to two batchers alternately
    for n in (2, 3, 4) if tier == 'quick' else (2, 3, 4, 5):
        gaps = small
        cfgs = [{'mbs': a, 'mcb': 1, 'R': r} for a in (1, 3) for r in (0.0, 2.0)]
        for pat in growth_patterns(n, 2):
            for form in ('class', 'func'):
                yield (n, pat, list(itertools.product(gaps, repeat=n - 1)), cfgs, 1, ('fwd',), (0.0,), form, 2)


def main(tier):
    t0 = time.time()
    common.use_source()
    total = Stats()
    items = list(plan(tier))
    for st in common.pmap(run_case, items):
        total.merge(st)
    nmax = max(i[0] for i in items if i[0] != 'adaptive')
    return common.finish(
        PID, tier, total, t0,
        rule=(f'all programs of 1..{nmax} calls (argument patterns over 3 symbols, gaps on a grid around '
              'batch_timeout) x configs x batch-function scripts with a bounded number of deviating keys x '
              'result order x item duration x {class, function form} plus two-instance worlds; state = '
              '(program, script, config, batch log, caller outcomes)'),
        assumptions=['virtual clock', 'a yielded StopIteration instance cannot be raised through a Future: any '
                     'exception (not a hang) is accepted for it'])


def replay(path):
    from aiuti import asyncio as aiu
    doc = json.load(open(path))['replay']
    ev = [(g, tuple(op)) for g, op in doc['events']]
    obs, run = B.execute(aiu, ev, doc['cfg'], doc['script'], form=doc['form'])
    for b in obs.batches:
        print('batch', b['bid'], 'inst', b['inst'], 'start', b['start'], [k for k, _ in b['items']], 'yields',
              b['yields'], 'raised', b['raised'])
    for c in obs.calls:
        print('call', c['i'], 'key', c['key'], 'inst', c['inst'], 't', c['t'], '->', c['out'], 'at', c['done_t'])
    bad = check_log(obs, run, doc['script'])
    for x in bad:
        print('PROBLEM', x)
    return 1 if bad else 0
