"""C14 - cache keys: same arguments share, different arguments never do (engine A).

(1) Signature sweep: every call signature (positional tuples of length 0..3 over a domain
with equal-but-distinct and equal-across-type values and (name, value) tuples; keyword dicts
over <= 3 names in every insertion order) is called on ONE wrapped function, sequentially in
forward / reverse / seed-shuffled order and all at once concurrently; since the cache is
shared, any two signatures that wrongly share or wrongly do not share are exposed without
enumerating pairs explicitly (all ordered pairs are covered by the forward+reverse orders).
(2) Eviction: every sequence of <= N operations over {call s_i, evict s_i, clear} on a logging
MutableMapping, and every call sequence on lru.LRU(k), k = 1..3: the wrapped function must be
invoked during a call iff the key is absent from the caller's mapping just before it.
"""
import asyncio
import itertools
import json
import random
import time
from collections.abc import MutableMapping

from mc import common
from mc.common import Stats
from mc.vt import run_main

PID = 'C14'
VALS = [0, 1, 1.0, True, 'a', (0,), None, ('p', 0), ('q', 1)]
NAMES = ['p', 'q', 'r']
KWVALS = [0, 1]


def refkey(args, kwargs):
    return (tuple(args), frozenset(kwargs.items()))


class LogMap(MutableMapping):
    """Caller-supplied cache that can also expire an entry on its own after a number of reads
    (what a TTL cache does between two accesses of the library)."""

    def __init__(self):
        self.d, self.log = {}, []
        self.armed = None        # [key, reads_left]
        self.fired = False

    def arm(self, key, reads):
        self.armed = [key, reads]

    def __getitem__(self, k):
        try:
            return self.d[k]
        finally:
            if self.armed is not None:
                self.armed[1] -= 1
                if self.armed[1] <= 0:
                    self.d.pop(self.armed[0], None)
                    self.armed = None
                    self.fired = True

    def __setitem__(self, k, v):
        self.log.append(('set', k))
        self.d[k] = v

    def __delitem__(self, k):
        del self.d[k]

    def __iter__(self):
        return iter(self.d)

    def __len__(self):
        return len(self.d)


class Result:
    __slots__ = ('args', 'kwargs', 'n')

    def __init__(self, args, kwargs, n):
        self.args, self.kwargs, self.n = args, kwargs, n

    def __repr__(self):
        return f'Result#{self.n}({self.args!r}, {self.kwargs!r})'


def signatures(maxpos, maxkw, ordered=True):
    for n in range(maxpos + 1):
        for args in itertools.product(range(len(VALS)), repeat=n):
            for k in range(maxkw + 1):
                for names in (itertools.permutations(NAMES, k) if ordered else itertools.combinations(NAMES, k)):
                    for vs in itertools.product(KWVALS, repeat=k):
                        yield tuple(VALS[i] for i in args), tuple(zip(names, vs))


def sweep(aiu, sigs, mode, cache_kind, st, label):
    """Call every signature on one wrapped function; check counts and values."""
    cache = None if cache_kind == 'default' else ({} if cache_kind == 'dict' else LogMap())
    invoked = []

    async def raw(*args, **kwargs):
        r = Result(args, dict(kwargs), len(invoked))
        invoked.append(r)
        await asyncio.sleep(0)
        return r
    f = aiu.threadsafe_async_cache(raw) if cache is None else aiu.threadsafe_async_cache(raw, cache=cache)
    results = []

    async def main():
        if mode == 'concurrent':
            outs = await asyncio.gather(*(f(*a, **dict(kw)) for a, kw in sigs))
            results.extend(outs)
        else:
            for a, kw in sigs:
                results.append(await f(*a, **dict(kw)))
        return True
    run = run_main(main)
    st.executions += 1
    st.transitions += len(sigs)
    if run.hang or run.error is not None:
        st.violation('harness_abnormal', f'hang={run.hang} error={run.error!r}', {'mode': mode, 'label': label})
        return
    seen = {}
    for (a, kw), r in zip(sigs, results):
        k = refkey(a, dict(kw))
        rk = refkey(r.args, r.kwargs)
        st.sig((label, mode, cache_kind, repr(a), kw, rk == k))
        if rk != k:
            st.violation('foreign_result',
                         f'call args={a!r} kwargs={dict(kw)!r} received {r!r}, computed for different arguments',
                         {'mode': mode, 'cache': cache_kind, 'args': repr(a), 'kwargs': kw, 'label': label})
        if k in seen and seen[k] is not r:
            st.violation('equal_arguments_not_shared',
                         f'args={a!r} kwargs={dict(kw)!r}: got {r!r} but an equal earlier call got {seen[k]!r}',
                         {'mode': mode, 'cache': cache_kind, 'args': repr(a), 'kwargs': kw, 'label': label})
        seen.setdefault(k, r)
    want = len(seen)
    if len(invoked) != want:
        st.violation('invocation_count',
                     f'{len(invoked)} invocations for {want} distinct reference keys ({len(sigs)} calls, {mode})',
                     {'mode': mode, 'cache': cache_kind, 'label': label})
    if cache is not None and len(cache) != want:
        st.violation('mapping_contents', f'caller mapping holds {len(cache)} entries for {want} keys',
                     {'mode': mode, 'cache': cache_kind, 'label': label})


SIG3 = [((1,), ()), ((1.0,), (('p', 0),)), ((('p', 0),), ()), ((), (('p', 0),))]


def evict_programs(n, expire=False):
    ops = [('call', i) for i in range(len(SIG3))] + [('evict', i) for i in range(len(SIG3))] + [('clear',)]
    if expire:
        ops += [('expire', i, k) for i in range(2) for k in (1, 2, 3)]
    for ln in range(1, n + 1):
        yield from itertools.product(ops, repeat=ln)


def run_evict(aiu, prog, cache_kind, st):
    from lru import LRU
    evicted_cb = []
    if cache_kind == 'logmap':
        cache = LogMap()
    elif cache_kind == 'dict':
        cache = {}
    else:
        cache = LRU(int(cache_kind[3:]), callback=lambda k, v: evicted_cb.append(k))
    invoked = []

    async def raw(*args, **kwargs):
        r = Result(args, dict(kwargs), len(invoked))
        invoked.append(r)
        await asyncio.sleep(0)
        return r
    f = aiu.threadsafe_async_cache(cache=cache)(raw)
    bad = []

    def hkeys():          # harness reads must not count as reads of the expiring mapping
        return list(cache.d.keys()) if isinstance(cache, LogMap) else list(cache.keys())

    def hitems():
        return list(cache.d.items()) if isinstance(cache, LogMap) else list(cache.items())

    implkey = {}     # reference key -> the key object the implementation stored (learned, format-agnostic)

    def present(k):
        return k in implkey and any(kk == implkey[k] and type(kk) is type(implkey[k]) for kk in hkeys())

    async def main():
        for op in prog:
            if op[0] == 'call':
                a, kw = SIG3[op[1]]
                k = refkey(a, dict(kw))
                was = present(k)
                stored = next((v for kk, v in hitems() if was and kk == implkey[k]), None)
                keys0 = hkeys()
                n0 = len(invoked)
                if isinstance(cache, LogMap):
                    cache.fired = False
                try:
                    r = await f(*a, **dict(kw))
                except BaseException as e:   # noqa
                    bad.append(('call_raised', f'{op}: call {a!r} {dict(kw)!r} raised {type(e).__name__}: {e} '
                                               f'(program {prog})'))
                    continue
                if isinstance(cache, LogMap) and cache.fired:
                    # the entry expired while this very call was looking at the mapping: old value or
                    # exactly one recomputation, both fine - but always this key's value
                    if refkey(r.args, r.kwargs) != k:
                        bad.append(('foreign_result', f'{op}: call {a!r} {dict(kw)!r} got {r!r}'))
                    if len(invoked) - n0 > 1 or (len(invoked) == n0 and r is not stored):
                        bad.append(('eviction_during_call_mishandled',
                                    f'{op}: {len(invoked) - n0} invocations, got {r!r}, stored was {stored!r}'))
                    if len(invoked) == n0 + 1:
                        fresh = [kk for kk in hkeys() if not any(kk is k0 for k0 in keys0)]
                        if fresh:
                            implkey[k] = fresh[-1]
                    continue
                if refkey(r.args, r.kwargs) != k:
                    bad.append(('foreign_result', f'{op}: call {a!r} {dict(kw)!r} got {r!r}'))
                if was and (len(invoked) != n0 or r is not stored):
                    bad.append(('recomputed_although_cached', f'{op}: entry in the caller mapping, invocations '
                                                              f'{n0}->{len(invoked)}, got {r!r} stored {stored!r}'))
                if not was and len(invoked) != n0 + 1:
                    bad.append(('not_recomputed_after_eviction',
                                f'{op}: no entry for these arguments in the caller mapping but '
                                f'{len(invoked) - n0} invocations; got {r!r}'))
                if len(invoked) == n0 + 1:
                    new = [kk for kk in hkeys() if not any(kk is k0 or kk == k0 for k0 in keys0)]
                    if len(new) == 1:
                        implkey[k] = new[0]
                    elif not new:
                        bad.append(('result_not_stored_in_caller_mapping', f'{op}: mapping unchanged'))
            elif op[0] == 'evict':
                a, kw = SIG3[op[1]]
                k = refkey(a, dict(kw))
                if present(k):
                    del cache[implkey[k]]
            elif op[0] == 'expire':
                a, kw = SIG3[op[1]]
                k = refkey(a, dict(kw))
                if present(k) and isinstance(cache, LogMap):
                    cache.arm(implkey[k], op[2])
            else:
                cache.clear()
        return True
    run = run_main(main)
    st.executions += 1
    st.transitions += len(prog)
    st.sig((cache_kind, prog, len(invoked)))
    if run.hang or run.error is not None:
        bad.append(('harness_abnormal', f'hang={run.hang} error={run.error!r}'))
    for kind, detail in bad:
        st.violation(kind, detail, {'mode': 'evict', 'cache': cache_kind, 'prog': prog})


def reuse_sweep(aiu, sigs, st):
    """`deco = threadsafe_async_cache()` (options form, no cache given) applied to two functions: each
    function must keep its own entries."""
    deco = aiu.threadsafe_async_cache()
    made = {'f': [], 'g': []}

    def mk(tag):
        async def raw(*args, **kwargs):
            r = Result(args, dict(kwargs), len(made[tag]))
            made[tag].append(r)
            await asyncio.sleep(0)
            return (tag, r)
        return deco(raw)
    f, g = mk('f'), mk('g')
    out = []

    async def main():
        for a, kw in sigs:
            out.append((await f(*a, **dict(kw)), await g(*a, **dict(kw))))
        return True
    run = run_main(main)
    st.executions += 1
    st.transitions += 2 * len(sigs)
    if run.hang or run.error is not None:
        st.violation('harness_abnormal', f'hang={run.hang} error={run.error!r}', {'mode': 'reuse'})
        return
    for (a, kw), (rf, rg) in zip(sigs, out):
        st.sig(('reuse', repr(a), kw, rf[0], rg[0]))
        for want, got in (('f', rf), ('g', rg)):
            if got[0] != want or refkey(got[1].args, got[1].kwargs) != refkey(a, dict(kw)):
                st.violation('foreign_result',
                             f'{want}{a!r}{dict(kw)!r} returned {got!r}: a result of another function / other '
                             f'arguments (one decorator object, created without a cache, wrapped two functions)',
                             {'mode': 'reuse', 'args': repr(a), 'kwargs': kw})


SPECIAL_RESULTS = [None, 0, False, '', (), 0.0]


def special_values(aiu, st):
    """The VALUE computed for a key is whatever the function returned - including None and other falsy
    values: equal arguments still share one entry; one eviction from a supplied mapping = one recomputation."""
    for vi, val in enumerate(SPECIAL_RESULTS):
        for cache_kind in ('default', 'dict'):
            for mode in ('sequential', 'concurrent'):
                invoked = []
                store = {} if cache_kind == 'dict' else None

                async def raw(x, val=val, invoked=invoked):
                    invoked.append(x)
                    await asyncio.sleep(0)
                    return val
                f = aiu.threadsafe_async_cache(raw) if store is None else aiu.threadsafe_async_cache(raw, cache=store)

                async def main(f=f, mode=mode, store=store):
                    if mode == 'concurrent':
                        outs = list(await asyncio.gather(f(1), f(1), f(1)))
                    else:
                        outs = [await f(1), await f(1), await f(1)]
                    n_before = len(invoked)
                    if store is not None:
                        store.clear()
                        outs += [await f(1), await f(1)]
                    return outs, n_before
                run = run_main(main)
                st.executions += 1
                st.transitions += 5
                st.sig(('special', vi, cache_kind, mode, repr(run.result), len(invoked)))
                doc = {'mode': 'special', 'value': repr(val), 'cache': cache_kind, 'calls': mode}
                if run.error is not None or run.hang or run.result is None:
                    st.violation('harness_abnormal', f'{doc}: error={run.error!r} hang={run.hang}', doc)
                    continue
                outs, n_before = run.result
                if any(o is not val and o != val for o in outs) or any(type(o) is not type(val) for o in outs):
                    st.violation('wrong_value', f'function returns {val!r} but callers got {outs!r} ({doc})', doc)
                if n_before != 1:
                    st.violation('recomputed_for_equal_arguments',
                                 f'three {mode} calls with equal arguments whose result is {val!r} invoked the '
                                 f'function {n_before} times ({cache_kind} cache)', doc)
                if store is not None and len(invoked) - n_before != 1:
                    st.violation('eviction_recomputation_count',
                                 f'after clearing the supplied mapping, two calls (result {val!r}) caused '
                                 f'{len(invoked) - n_before} recomputations instead of exactly one', doc)


def run_case(item):
    from aiuti import asyncio as aiu
    st = Stats()
    if item[0] == 'special':
        special_values(aiu, st)
        st.sample({'mode': 'special result values', 'values': [repr(v) for v in SPECIAL_RESULTS]})
        return st
    if item[0] == 'reuse':
        sigs = list(signatures(item[1], item[2]))
        reuse_sweep(aiu, sigs, st)
        st.sample({'mode': 'decorator object reused for two functions', 'signatures': len(sigs)})
        return st
    if item[0] == 'sweep':
        _, maxpos, maxkw, mode, cache_kind, part, parts = item
        sigs = [s for i, s in enumerate(signatures(maxpos, maxkw)) if i % parts == part]
        if mode == 'reverse':
            sigs.reverse()
        elif mode == 'shuffled':
            random.Random(common.SEED + 17 * part).shuffle(sigs)
        sweep(aiu, sigs, 'concurrent' if mode == 'concurrent' else 'sequential', cache_kind, st,
              f'{mode}/{part}')
        st.sample({'mode': mode, 'cache': cache_kind, 'signatures': len(sigs), 'first': repr(sigs[:3])})
    else:
        _, n, cache_kind, part, parts = item
        progs = [p for i, p in enumerate(evict_programs(n, expire=(cache_kind == 'logmap'))) if i % parts == part]
        for p in progs:
            if cache_kind.startswith('lru') and any(op[0] != 'call' for op in p):
                continue
            run_evict(aiu, p, cache_kind, st)
        st.sample({'mode': 'evict', 'cache': cache_kind, 'programs': len(progs), 'example': progs[-1]})
    return st


def main(tier):
    t0 = time.time()
    common.use_source()
    total = Stats()
    maxpos, maxkw = (2, 3) if tier == 'quick' else (3, 3)
    plan = []
    # partition so that colliding candidates stay together: a single partition per run
    for mode in ('forward', 'reverse', 'shuffled', 'concurrent'):
        for cache_kind in ('default', 'dict', 'logmap'):
            plan.append(('sweep', maxpos, maxkw, mode, cache_kind, 0, 1))
    plan.append(('reuse', 2, 2))
    plan.append(('special',))
    n = 4 if tier == 'quick' else 5
    for cache_kind in ('logmap', 'dict'):
        plan += [('evict', n, cache_kind, p, 16) for p in range(16)]
    for k in (1, 2, 3):
        plan += [('evict', n + 1, f'lru{k}', p, 4) for p in range(4)]
    for st in common.pmap(run_case, plan):
        total.merge(st)
    return common.finish(
        PID, tier, total, t0,
        rule=(f'signature sweep: all signatures with <= {maxpos} positionals over a 9-value domain x keyword '
              'dicts over <= 3 names in every insertion order, called on one wrapped function forward, reverse, '
              'shuffled and concurrently, for the default cache, a dict and a logging MutableMapping; eviction: '
              f'all sequences of <= {n} ops over {{call, evict, clear}} x 4 colliding signatures on dict/LogMap, all '
              'call sequences on lru.LRU(1..3); functions whose result is None / 0 / False / empty (sharing and exactly-one '
              'recomputation after eviction); states = distinct (signature, cache kind, verdict) and (program, '
              'invocations)'),
        assumptions=['reference key relation: Python ==/hash on (args, frozenset(kwargs.items()))'])


def replay(path):
    from aiuti import asyncio as aiu
    doc = json.load(open(path))['replay']
    st = Stats()
    if doc.get('mode') == 'special':
        special_values(aiu, st)
    elif doc.get('mode') == 'evict':
        run_evict(aiu, tuple(tuple(o) for o in doc['prog']), doc['cache'], st)
    else:
        maxpos = 2
        sigs = list(signatures(maxpos, 3))
        sweep(aiu, sigs, 'sequential', doc.get('cache', 'default'), st, 'replay')
    for v in st.violations[:5]:
        print('PROBLEM', v['kind'], v['detail'])
    return 1 if st.violations else 0
