"""C15 - decorator-with-options forms configure exactly like the direct forms (engine A).

For each decorator and each option (one at a time non-default, and jointly) a family of probe
programs is run on `@deco(opt=v)`, `deco(func, opt=v)` and - for the batcher - the class; the
complete observation logs (virtual times included) must be identical, and each family must be
*sensitive* to its option (the log differs from the default-configured run), otherwise the
check reports itself vacuous. Then a decorated batcher is used from 1..3 loops one after the
other (previous loop closed or kept open).
"""
import asyncio
import itertools
import json
import time
from asyncio import events

from mc import common
from mc.common import Stats
from mc.vloop import SoloWorld, set_world
from mc.vt import run_main
from . import batcher as B
from . import buffer as BF

PID = 'C15'

BATCHER_OPTS = {
    'max_batch_size': 2,
    'max_concurrent_batches': 1,
    'batch_timeout': 1.0,
    'retention_timeout': 2.0,
}
GAPS = (0.0, 0.1, 0.5, 1.5)


def run_batcher(aiu, form, opts, prog, batch_dur, gc_events=False):
    """prog: [(gap, key)] -> observation tuple."""
    obs = B.Obs()

    async def main():
        loop = asyncio.get_running_loop()
        world = loop._world
        func = B.make_func(obs, world, {}, 'fwd', 0.0, batch_dur)
        if form == 'class':
            b = aiu.AsyncBackgroundBatcher(func, **opts)
        elif form == 'func':
            b = aiu.async_background_batcher(func, **opts)
        else:
            b = aiu.async_background_batcher(**opts)(func)
        outs = []

        async def caller(i, k):
            try:
                v = await b(k)
                outs.append((i, world.now, 'ret', v.key, v.bid))
            except BaseException as e:   # noqa
                outs.append((i, world.now, 'exc', type(e).__name__, None))
        tasks = []
        for i, (gap, k) in enumerate(prog):
            if gap:
                await asyncio.sleep(gap)
                if gc_events:          # environment event: a cyclic garbage collection while the program idles
                    import gc
                    gc.collect()
            tasks.append(loop.create_task(caller(i, k)))
        await asyncio.wait(tasks)
        return tuple(outs)
    run = run_main(main)
    batches = tuple((b['bid'], b['start'], b['end'], tuple(k for k, _ in b['items'])) for b in obs.batches)
    return (batches, run.result, run.hang, repr(run.error))


def batcher_probes():
    for n in (1, 2, 3):
        for keys in itertools.product((0, 1), repeat=n):
            for gs in itertools.product(GAPS, repeat=n - 1):
                yield [(g, k) for g, k in zip((0.0,) + gs, keys)]


def run_buffer(aiu, form, timeout, prog):
    ev = [(g, ('put', i)) for i, g in enumerate(prog)]
    saved = BF.execute
    obs_run = None
    # forms: 'direct' = buffer_until_timeout(func, timeout=v); 'deco' = buffer_until_timeout(timeout=v)(func)
    if timeout is None:
        obs, run = _buffer_default(aiu, ev)
    else:
        obs, run = BF.execute(aiu, ev, timeout, (), 0.0, form=form, settle=20.0)
    return (tuple((c['start'], c['args']) for c in obs.calls), run.hang, repr(run.error))


def _buffer_default(aiu, ev):
    """buffer_until_timeout(func) with no option at all (default timeout)."""
    obs = BF.Obs()

    async def main():
        loop = asyncio.get_running_loop()
        world = loop._world

        async def func(args):
            obs.calls.append({'start': world.now, 'args': tuple(sorted(args))})
        buf = aiu.buffer_until_timeout(func)
        for g, op in ev:
            if g:
                await asyncio.sleep(g)
            buf(op[1])
        await asyncio.sleep(20.0)
    run = run_main(main)
    return obs, run


def run_cache(aiu, form, use_cache):
    """threadsafe_async_cache with/without the cache option -> (invocations, mapping contents size, results)."""
    store = {}
    calls = []

    async def raw(x, y=0):
        calls.append((x, y))
        await asyncio.sleep(0)
        return ('r', x, y)
    if not use_cache:
        f = aiu.threadsafe_async_cache(raw) if form == 'direct' else aiu.threadsafe_async_cache()(raw)
    elif form == 'direct':
        f = aiu.threadsafe_async_cache(raw, cache=store)
    else:
        f = aiu.threadsafe_async_cache(cache=store)(raw)

    async def main():
        out = []
        for a in ((1,), (2,), (1,), (1, 5), (2,)):
            out.append(await f(*a))
        store_size_mid = len(store)
        store.clear()
        out.append(await f(1))
        return tuple(out), store_size_mid
    run = run_main(main)
    return (tuple(calls), run.result, len(store), f.__name__, run.hang, repr(run.error))


def multi_loop(aiu, nloops, keep_open, R, progs, st):
    """A decorated batcher used from several loops one after the other."""
    world = SoloWorld()
    set_world(world)
    obs = B.Obs()
    func_holder = {}
    bad = []

    def mk():
        func = B.make_func(obs, world, {}, 'fwd', 0.0, 0.0)
        return aiu.async_background_batcher(max_batch_size=3, batch_timeout=1.0, retention_timeout=R)(func)
    deco = mk()
    loops = []
    for li in range(nloops):
        loop = world.new_loop()
        loops.append(loop)
        events.set_event_loop(loop)
        outs = []

        async def main(li=li, loop=loop, outs=outs):
            async def caller(i, k):
                try:
                    v = await deco(k)
                    outs.append((i, k, 'ret', v))
                except BaseException as e:   # noqa
                    outs.append((i, k, 'exc', e))
            tasks = []
            for i, (gap, k) in enumerate(progs[li]):
                if gap:
                    await asyncio.sleep(gap)
                tasks.append(loop.create_task(caller(i, k)))
            await asyncio.wait(tasks)
        try:
            from mc.vloop import IdleForever
            try:
                loop.run_until_complete(main())
            except IdleForever:
                bad.append(('caller_never_answered', f'loop #{li}: a caller of the decorated batcher hangs'))
            for i, k, tag, v in outs:
                if tag != 'ret' or v.key != str(k):
                    bad.append(('wrong_outcome', f'loop #{li} call {k} -> {tag} {v!r}'))
                    continue
                rec = next((b for b in obs.batches if b['bid'] == v.bid and any(o is v for _, o in b['yields'])),
                           None)
                if rec is None:
                    bad.append(('foreign_result', f'loop #{li} call {k} received {v!r}, which no batch of this '
                                                  f'decorated function produced'))
                elif rec['loop'] is not loop:
                    bad.append(('served_by_other_loop', f'loop #{li} call {k} answered by a batch that ran on '
                                                        f'loop #{loops.index(rec["loop"])}'))
            if len(outs) != len(progs[li]):
                bad.append(('caller_never_answered', f'loop #{li}: {len(outs)} of {len(progs[li])} answered'))
        finally:
            events.set_event_loop(None)
            if not keep_open:
                from asyncio import runners
                try:
                    runners._cancel_all_tasks(loop)
                except BaseException:   # noqa
                    pass
                loop.close()
    for loop in loops:
        if not loop.is_closed():
            loop.close()
    st.executions += 1
    st.transitions += sum(len(p) for p in progs)
    st.sig(('multi', nloops, keep_open, R, tuple(map(tuple, progs)), len(obs.batches), len(bad)))
    for kind, detail in bad:
        st.violation(kind, detail, {'mode': 'multi_loop', 'nloops': nloops, 'keep_open': keep_open, 'R': R,
                                    'progs': progs})


def alternating_loops(aiu, nloops, seq, R, st):
    """One decorated batcher used from several LIVE loops in alternation (single thread: each step
    runs one call to completion on the chosen loop; loops stay open, their batcher tasks pending)."""
    from mc.vloop import IdleForever
    world = SoloWorld()
    set_world(world)
    obs = B.Obs()
    func = B.make_func(obs, world, {}, 'fwd', 0.0, 0.0)
    deco = aiu.async_background_batcher(max_batch_size=3, batch_timeout=1.0, retention_timeout=R)(func)
    loops = [world.new_loop() for _ in range(nloops)]
    bad = []
    for step, (li, k) in enumerate(seq):
        loop = loops[li]
        events.set_event_loop(loop)

        async def main():
            return await deco(k)
        try:
            v = loop.run_until_complete(main())
        except IdleForever:
            bad.append(('caller_never_answered', f'step {step}: call {k} on loop #{li} hangs (sequence {seq})'))
            break
        except BaseException as e:   # noqa
            bad.append(('wrong_outcome', f'step {step}: call {k} on loop #{li} raised {type(e).__name__}: {e} '
                                         f'(sequence {seq})'))
            break
        finally:
            events.set_event_loop(None)
        rec = next((b for b in obs.batches if b['bid'] == v.bid and any(o is v for _, o in b['yields'])), None)
        if v.key != str(k) or rec is None:
            bad.append(('wrong_outcome', f'step {step}: call {k} on loop #{li} got {v!r}'))
        elif rec['loop'] is not loop:
            bad.append(('served_by_other_loop', f'step {step}: call {k} on loop #{li} was answered by a batch that '
                                                f'ran on loop #{loops.index(rec["loop"])} (sequence {seq})'))
    for b in obs.batches:
        pass
    for loop in loops:
        try:
            from asyncio import runners
            runners._cancel_all_tasks(loop)
        except BaseException:   # noqa
            pass
        loop.close()
    st.executions += 1
    st.transitions += len(seq)
    st.sig(('alt', nloops, tuple(seq), R, len(obs.batches), len(bad)))
    for kind, detail in bad:
        st.violation(kind, detail, {'mode': 'alternating', 'nloops': nloops, 'seq': seq, 'R': R})


def threads_world(aiu, w, prefix=(), expect=None):
    """Engine B: one decorated batcher used from 2..3 loops running concurrently in their own threads."""
    from mc import tx
    sched = tx.Sched(prefix, expect, horizon=100.0, budget=30000)
    tx.bind_asyncio_seams(aiu, sched)
    obs = B.Obs()
    func = B.make_func(obs, sched, {}, 'fwd', 0.0, w['batch_dur'])
    deco = aiu.async_background_batcher(max_batch_size=2, batch_timeout=1.0, retention_timeout=w['R'])(func)
    outs = {}

    def body(ti):
        def run():
            async def main():
                res = []
                for rnd in range(w['rounds']):
                    try:
                        vals = await asyncio.gather(deco((ti, 0), key='0'), deco((ti, rnd + 1), key=f'{rnd + 1}'))
                        res.append(('ok', vals))
                    except tx.SchedAbort:
                        raise
                    except BaseException as e:   # noqa
                        res.append(('exc', e))
                outs[ti] = (res, asyncio.get_running_loop())
            asyncio.run(main(), loop_factory=lambda: sched.new_loop(f'L{ti}'))
        return run
    for ti in range(w['nloops']):
        sched.spawn(body(ti), name=f'T{ti}')
    aborted = sched.run()
    x = tx.Execution()
    x.choices, x.aborted, x.trace, x.sched = sched.choices, aborted, sched.trace, sched
    bad = []
    if aborted:
        bad.append((f'execution_{aborted}', 'threads using the decorated batcher never finish'))
    for ti in range(w['nloops']):
        if ti not in outs:
            if not aborted:
                bad.append(('caller_never_answered', f'thread {ti} did not finish'))
            continue
        res, loop = outs[ti]
        for rnd, r in enumerate(res):
            if r[0] != 'ok':
                bad.append(('wrong_outcome', f'loop #{ti} round {rnd}: raised {type(r[1]).__name__}: {r[1]}'))
                continue
            for v, want in zip(r[1], ('0', f'{rnd + 1}')):
                rec = next((b for b in obs.batches if b['bid'] == v.bid and any(o is v for _, o in b['yields'])), None)
                if v.key != want or rec is None:
                    bad.append(('wrong_outcome', f'loop #{ti} round {rnd}: got {v!r} for key {want}'))
                elif rec['loop'] is not loop:
                    bad.append(('served_by_other_loop', f'loop #{ti} round {rnd} key {want} answered by a batch on '
                                                        f'another loop'))
    for b in obs.batches:
        owners = {a[0] for _, a in b['items']}
        if len(owners) > 1:
            bad.append(('batch_mixes_loops', f'batch {b["bid"]} carries items submitted on loops {sorted(owners)}'))
    x.result = (bad, tuple(sorted((ti, tuple(r[0] for r in outs[ti][0])) for ti in outs)), len(obs.batches))
    return x


def reused_decorator(aiu, deco_kind, form, opt, prog):
    """One decorator-with-options object applied to TWO functions (form 'deco') against each function wrapped
    directly with the same options (form 'direct'). prog: [(gap, which function 0/1, argument)]."""
    log = []

    async def main():
        loop = asyncio.get_running_loop()
        world = loop._world
        if deco_kind == 'cache':
            store = {} if opt else None

            def mkraw(tag):
                async def raw(x):
                    log.append(('invoked', tag, x, world.now))
                    await asyncio.sleep(0)
                    return (tag, x)
                return raw
            kw = {'cache': store} if opt else {}
            if form == 'deco':
                d = aiu.threadsafe_async_cache(**kw)
                fs = [d(mkraw('f')), d(mkraw('g'))]
            else:
                fs = [aiu.threadsafe_async_cache(mkraw('f'), **kw), aiu.threadsafe_async_cache(mkraw('g'), **kw)]
            for gap, which, x in prog:
                if gap:
                    await asyncio.sleep(gap)
                log.append(('result', which, x, await fs[which](x)))
            log.append(('store', None if store is None else len(store)))
        elif deco_kind == 'buffer':
            def mkfunc(tag):
                async def func(args):
                    log.append(('called', tag, world.now, tuple(sorted(args))))
                return func
            if form == 'deco':
                d = aiu.buffer_until_timeout(timeout=opt)
                fs = [d(mkfunc('f')), d(mkfunc('g'))]
            else:
                fs = [aiu.buffer_until_timeout(mkfunc('f'), timeout=opt),
                      aiu.buffer_until_timeout(mkfunc('g'), timeout=opt)]
            for gap, which, x in prog:
                if gap:
                    await asyncio.sleep(gap)
                fs[which](x)
            await asyncio.sleep(20.0)
        else:
            def mkbatch(tag):
                async def batch(keys):
                    ks = list(keys)
                    log.append(('batch', tag, world.now, tuple(ks)))
                    for k in ks:
                        yield k, (tag, k)
                return batch
            if form == 'deco':
                d = aiu.async_background_batcher(**opt)
                fs = [d(mkbatch('f')), d(mkbatch('g'))]
            else:
                fs = [aiu.async_background_batcher(mkbatch('f'), **opt),
                      aiu.async_background_batcher(mkbatch('g'), **opt)]

            async def caller(i, which, x):
                try:
                    log.append(('result', i, which, x, await fs[which](x), world.now))
                except BaseException as e:   # noqa
                    log.append(('exc', i, which, x, type(e).__name__, world.now))
            tasks = []
            for i, (gap, which, x) in enumerate(prog):
                if gap:
                    await asyncio.sleep(gap)
                tasks.append(loop.create_task(caller(i, which, x)))
            await asyncio.wait(tasks)
            await asyncio.sleep(5.0)
        return True
    run = run_main(main)
    return (tuple(log), run.hang, repr(run.error))


def reused_programs(n):
    for whichs in itertools.product((0, 1), repeat=n):
        for xs in itertools.product((1, 2), repeat=n):
            for gs in itertools.product((0.0, 0.5), repeat=n - 1):
                yield [(g, w_, x) for g, w_, x in zip((0.0,) + gs, whichs, xs)]


def two_wrappers(aiu, form_pair, opts_a, opts_b, order):
    """The same batch function wrapped twice with different options, both used in one loop."""
    obs = B.Obs()

    async def main():
        loop = asyncio.get_running_loop()
        func = B.make_func(obs, loop._world, {}, 'fwd', 0.0, 0.0)

        def mk(form, opts):
            if form == 'class':
                return aiu.AsyncBackgroundBatcher(func, **opts)
            if form == 'func':
                return aiu.async_background_batcher(func, **opts)
            return aiu.async_background_batcher(**opts)(func)
        wa, wb = mk(form_pair[0], opts_a), mk(form_pair[1], opts_b)
        seq = [(wa, 100), (wb, 200)] if order == 'ab' else [(wb, 200), (wa, 100)]
        for w_, base in seq:
            await asyncio.gather(*(w_(base + i) for i in range(5)))
            await asyncio.sleep(3.0)
        return True
    run = run_main(main)
    return (tuple((b['start'], tuple(k for k, _ in b['items'])) for b in obs.batches), run.hang, repr(run.error))


def run_case(item):
    from aiuti import asyncio as aiu
    st = Stats()
    kind = item[0]
    if kind == 'twowrap':
        for oa, ob in (({'max_batch_size': 2}, {'max_batch_size': 5}),
                       ({'batch_timeout': 1.0}, {'batch_timeout': 0.25}),
                       ({'max_batch_size': 2, 'max_concurrent_batches': 1}, {})):
            for order in ('ab', 'ba'):
                ref = two_wrappers(aiu, ('class', 'class'), oa, ob, order)
                for fp in (('deco', 'func'), ('func', 'deco'), ('deco', 'deco'), ('func', 'func')):
                    got = two_wrappers(aiu, fp, oa, ob, order)
                    st.executions += 1
                    st.transitions += 10
                    st.sig(('twowrap', repr(oa), repr(ob), order, fp, got))
                    if got != ref:
                        st.violation('option_not_applied',
                                     f'one batch function wrapped twice ({fp[0]} form with {oa}, {fp[1]} form with '
                                     f'{ob}), used in one loop in order {order}: batches {got[0]} but two class '
                                     f'batchers with the same options give {ref[0]}',
                                     {'mode': 'twowrap', 'oa': oa, 'ob': ob, 'order': order, 'forms': fp})
        st.sample({'mode': 'two wrappers of one batch function with different options in one loop'})
        return st
    if kind == 'reused':
        cfgs = [('cache', False), ('cache', True), ('buffer', 0.25), ('buffer', 3.0),
                ('batcher', {}), ('batcher', {'max_batch_size': 2, 'batch_timeout': 1.0}),
                ('batcher', {'retention_timeout': 2.0})]
        for dk, opt in cfgs:
            diverse = False
            for n in (2, 3):
                for prog in reused_programs(n):
                    ref = reused_decorator(aiu, dk, 'direct', opt, prog)
                    got = reused_decorator(aiu, dk, 'deco', opt, prog)
                    st.executions += 2
                    st.transitions += 2 * n
                    st.sig(('reused', dk, repr(opt), tuple(prog), got))
                    if got != ref:
                        st.violation('reused_decorator_differs_from_direct_form',
                                     f'one {dk} decorator object made with options {opt!r} applied to two functions, '
                                     f'program (gap, function, argument) {prog}: {got[0]} but wrapping each function '
                                     f'directly with the same options gives {ref[0]}',
                                     {'mode': 'reused', 'deco': dk, 'opt': opt, 'prog': prog})
        st.sample({'mode': 'one decorator-with-options object applied to two functions vs direct wrapping',
                   'configs': [repr(c) for c in cfgs]})
        return st
    if kind == 'threads':
        from mc import tx
        _, w, pb, shard, nsh = item
        tx.install_monitoring(common.SRC)
        tx.save_asyncio_seams(aiu)

        def run_one(prefix, expect):
            x = threads_world(aiu, w, prefix, expect)
            if x.aborted == 'wall_timeout':
                raise common.MachineryError(f'wall-clock timeout in {w}')
            return x

        def on_exec(prefix, x):
            st.executions += 1
            st.transitions += x.sched.points
            st.sig(('threads', json.dumps(w, sort_keys=True), x.result[1], x.result[2], x.aborted))
            st.count('thread_schedules')
            for kind_, detail in x.result[0]:
                st.violation(kind_, f'[{w}] ' + detail, {'mode': 'threads', 'w': w, 'prefix': list(prefix)})
        try:
            root = run_one((), None)
            if shard == 0:
                on_exec((), root)
            for i, kid in enumerate(tx.children(root.choices, 0, pb, 2)):
                if i % nsh == shard:
                    tx.explore(run_one, pb, root=kid, on_exec=on_exec, fbound=2, stop=lambda: st.extra.get('violations_total', 0) >= 12)
        except tx.Divergence as e:
            raise common.MachineryError(f'{w}: {e}')
        finally:
            tx.restore_asyncio_seams(aiu)
        if shard == 0:
            st.sample({'mode': 'concurrent loops in threads (engine B)', 'world': w, 'preemption_bound': pb})
        return st
    if kind == 'alt':
        _, nloops, R, ln = item
        for loops_seq in itertools.product(range(nloops), repeat=ln):
            for keys in itertools.product((0, 1), repeat=ln):
                alternating_loops(aiu, nloops, list(zip(loops_seq, keys)), R, st)
        st.sample({'mode': 'alternating live loops', 'loops': nloops, 'steps': ln, 'retention': R})
        return st
    if kind == 'batcher':
        _, optnames = item
        opts = {k: BATCHER_OPTS[k] for k in optnames}
        sensitive = False
        for prog in batcher_probes():
            for bd in (0.0, 1.0):
                base = run_batcher(aiu, 'class', {}, prog, bd)
                logs = {form: run_batcher(aiu, form, opts, prog, bd) for form in ('class', 'func', 'deco')}
                st.executions += 4
                st.transitions += 4 * len(prog)
                st.sig(('batcher', optnames, tuple(prog), bd, logs['class']))
                if logs['class'] != base:
                    sensitive = True
                if 'retention_timeout' in opts and any(g > 0 for g, _ in prog):
                    # the same programs with a garbage collection during every idle gap
                    glogs = {form: run_batcher(aiu, form, opts, prog, bd, gc_events=True)
                             for form in ('class', 'func', 'deco')}
                    st.executions += 3
                    for form in ('class', 'func', 'deco'):
                        if glogs[form] != logs['class']:
                            st.violation('option_lost_after_garbage_collection',
                                         f'async_background_batcher {form} form with {opts}: a gc.collect() while the '
                                         f'program idles changes the behaviour: program {prog} batch_dur {bd}: '
                                         f'{glogs[form][:2]} vs {logs["class"][:2]}',
                                         {'mode': 'batcher', 'opts': opts, 'prog': prog, 'batch_dur': bd, 'form': form,
                                          'gc': True})
                for form in ('func', 'deco'):
                    if logs[form] != logs['class']:
                        st.violation('option_not_applied',
                                     f'async_background_batcher {form} form with {opts} behaves differently from '
                                     f'AsyncBackgroundBatcher(func, **same): program {prog} batch_dur {bd}: '
                                     f'{form}={logs[form][:2]} class={logs["class"][:2]}',
                                     {'mode': 'batcher', 'opts': opts, 'prog': prog, 'batch_dur': bd, 'form': form})
        if opts and not sensitive:
            st.notes.add(f'VACUOUS: probe family insensitive to {optnames}')
        st.sample({'decorator': 'async_background_batcher', 'options': opts, 'probe_programs': 'all <=3 calls'})
    elif kind == 'buffer':
        _, timeout = item
        sensitive = False
        for n in (1, 2, 3):
            for gs in itertools.product((0.0, 0.25, 0.9, 1.1, 3.5), repeat=n - 1):
                prog = (0.0,) + gs
                base = run_buffer(aiu, 'direct', None, prog)
                d = run_buffer(aiu, 'direct', timeout, prog)
                k = run_buffer(aiu, 'deco', timeout, prog)
                c = run_buffer(aiu, 'class', timeout, prog)
                st.executions += 4
                st.transitions += 4 * n
                st.sig(('buffer', timeout, prog, d))
                if d != base:
                    sensitive = True
                if k != d or c != d:
                    st.violation('option_not_applied',
                                 f'buffer_until_timeout(timeout={timeout}): decorator form {k[0]} / class {c[0]} vs '
                                 f'direct form {d[0]} for arrivals {prog}',
                                 {'mode': 'buffer', 'timeout': timeout, 'prog': prog})
        if not sensitive:
            st.notes.add(f'VACUOUS: buffer probes insensitive to timeout={timeout}')
        st.sample({'decorator': 'buffer_until_timeout', 'timeout': timeout})
    elif kind == 'cache':
        res = {(form, uc): run_cache(aiu, form, uc) for form in ('direct', 'deco') for uc in (True, False)}
        st.executions += 4
        st.transitions += 24
        st.sig(('cache', repr(res)))
        if res[('direct', True)] != res[('deco', True)]:
            st.violation('option_not_applied', f'threadsafe_async_cache(cache=m): decorator form '
                                               f'{res[("deco", True)]} vs direct {res[("direct", True)]}',
                         {'mode': 'cache'})
        if res[('direct', False)] != res[('deco', False)]:
            st.violation('option_not_applied', 'threadsafe_async_cache() vs threadsafe_async_cache(func) differ',
                         {'mode': 'cache'})
        # sensitivity: with cache=m, clearing m forces a recomputation (6 invocations vs 3 without)
        if res[('direct', True)][0] == res[('direct', False)][0]:
            st.notes.add('VACUOUS: cache probes insensitive to the cache option')
        if res[('direct', True)][1][1] != 3:
            st.violation('option_not_applied', f'cache=m given but m held {res[("direct", True)][1][1]} entries '
                                               f'after 3 distinct calls', {'mode': 'cache'})
        st.sample({'decorator': 'threadsafe_async_cache', 'option': 'cache'})
    else:
        _, nloops, keep_open, R = item
        per_loop = [[(0.0, 0), (g, k)] for g in (0.0, 1.5) for k in (0, 1)]
        for progs in itertools.product(per_loop, repeat=nloops):
            multi_loop(aiu, nloops, keep_open, R, list(progs), st)
        st.sample({'mode': 'multi_loop', 'loops': nloops, 'previous_loop_kept_open': keep_open, 'retention': R})
    return st


def main(tier):
    t0 = time.time()
    common.use_source()
    total = Stats()
    names = list(BATCHER_OPTS)
    plan = [('batcher', ())] + [('batcher', (n,)) for n in names] + [('batcher', tuple(names))]
    plan += [('batcher', c) for c in itertools.combinations(names, 2)] if tier != 'quick' else []
    plan += [('buffer', 0.25), ('buffer', 3.0), ('cache',), ('twowrap',), ('reused',)]
    plan += [('multi', n, ko, R) for n in (1, 2, 3) for ko in (False, True) for R in (0.0, 2.0)]
    plan += [('alt', n, R, ln) for n in (2, 3) for R in (0.0, 2.0) for ln in ((2, 3, 4) if tier == 'quick' else (2, 3, 4, 5))]
    for nl, pb, rounds in ((2, 1, 2), (3, 1, 1)) if tier == 'quick' else ((2, 2, 2), (3, 1, 2)):
        for R in (0.0, 2.0):
            for bd in (0.0, 1.0):
                w = {'nloops': nl, 'R': R, 'batch_dur': bd, 'rounds': rounds}
                plan += [('threads', w, pb, s, 4) for s in range(4)]
    for st in common.pmap(run_case, plan):
        total.merge(st)
    rc = common.finish(
        PID, tier, total, t0,
        rule=('for each decorator and each option (singly and jointly): every probe program of <= 3 calls over '
              'a gap grid is run on the decorator-with-options form, the direct form and (batcher, buffer) the '
              'class; complete virtual-time logs must be identical and must differ from the default '
              'configuration (sensitivity); a decorated batcher is then driven from 1..3 successive loops '
              '(closed or kept open) with all 2-call programs per loop; one decorator-with-options object applied to '
              'two functions (all 2..3-call programs over both functions) must equal wrapping each directly'),
        assumptions=['virtual clock', 'concurrent use from 2..3 loops in threads: engine B, preemption bound 1 (thorough 2 for two loops)'])
    if rc != 1 and any(n.startswith('VACUOUS') for n in total.notes):
        print('machinery error: ' + '; '.join(sorted(total.notes)))
        return 2
    return rc


def replay(path):
    from aiuti import asyncio as aiu
    doc = json.load(open(path))['replay']
    st = Stats()
    if doc['mode'] == 'batcher':
        prog = [tuple(p) for p in doc['prog']]
        for form in ('class', 'func', 'deco'):
            print(form, run_batcher(aiu, form, doc['opts'], prog, doc['batch_dur'])[:2])
        a = run_batcher(aiu, 'class', doc['opts'], prog, doc['batch_dur'])
        b = run_batcher(aiu, doc['form'], doc['opts'], prog, doc['batch_dur'])
        return 1 if a != b else 0
    if doc['mode'] == 'threads':
        from mc import tx
        tx.install_monitoring(common.SRC)
        tx.save_asyncio_seams(aiu)
        x = threads_world(aiu, doc['w'], tuple(doc['prefix']), None)
        for b in x.result[0]:
            print('PROBLEM', b)
        return 1 if x.result[0] else 0
    if doc['mode'] == 'reused':
        prog = [tuple(x) for x in doc['prog']]
        a = reused_decorator(aiu, doc['deco'], 'direct', doc['opt'], prog)
        b = reused_decorator(aiu, doc['deco'], 'deco', doc['opt'], prog)
        print('direct', a)
        print('deco  ', b)
        return 1 if a != b else 0
    if doc['mode'] == 'alternating':
        alternating_loops(aiu, doc['nloops'], [tuple(x) for x in doc['seq']], doc['R'], st)
    elif doc['mode'] == 'multi_loop':
        multi_loop(aiu, doc['nloops'], doc['keep_open'], doc['R'], [[tuple(e) for e in p] for p in doc['progs']], st)
    elif doc['mode'] == 'buffer':
        prog = tuple(doc['prog'])
        for form in ('direct', 'deco', 'class'):
            print(form, run_buffer(aiu, form, doc['timeout'], prog))
        return 1 if run_buffer(aiu, 'deco', doc['timeout'], prog) != run_buffer(aiu, 'direct', doc['timeout'], prog) else 0
    else:
        return run_case(('cache',)).violations and 1 or 0
    for v in st.violations:
        print('PROBLEM', v['kind'], v['detail'])
    return 1 if st.violations else 0
