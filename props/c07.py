"""C07 - wait() is a barrier and returns; cancelling the background task / shutdown terminates.

Engine A: (1) the C03 program space with the barrier oracle evaluated at the instant each
wait() returns (several concurrent waiters, cancel=True/False); (2) shutdown sweep: for every
small program the main coroutine returns at every grid instant, so the stock asyncio shutdown
(_cancel_all_tasks) meets the buffer idle / collecting / timer armed / function running;
(3) direct cancellation of the background task. Engine B part (foreign thread): props/c07b.
"""
import itertools
import json
import time

from mc import common
from mc.common import Stats
from mc.vloop import EPS
from . import buffer as BF
from . import bufprog as P

PID = 'C07'
T = P.T


def has_wait(seq):
    return any(a[0] in ('wait', 'put_wait') for a in seq)


def run_case(item):
    from aiuti import asyncio as aiu
    mode, seqs, gapsets, envs = item
    st = Stats()
    if mode == 'program':
        P.run_programs(aiu, seqs, gapsets, envs, P.oracle_c07, st, 'c07')
        st.sample({'mode': mode, 'action_sequences': [list(map(list, s)) for s in seqs[:2]],
                   'gap_vectors': len(gapsets), 'environments': envs[:3]})
        return st
    # shutdown sweep / background-task cancellation
    states = set()
    for seq in seqs:
        for gs in gapsets:
            ev = P.concretise(seq, (0.0,) + tuple(gs))
            for fails, dur in envs:
                ends = sorted({0.0, T / 4, T - EPS, T, T + EPS, T + dur / 2 if dur else T + 0.125,
                               2 * T + dur + 0.25, sum(gs) + T + dur / 2 if dur else sum(gs) + T / 2})
                for end_at in ends:
                    obs, run = BF.execute(aiu, ev, T, fails, dur, end_at=end_at)
                    st.executions += 1
                    st.transitions += len(ev) + len(obs.calls) + 1
                    sd = getattr(obs, 'shutdown_state', {})
                    states.add((sd.get('getting_armed'), sd.get('func_running')))
                    st.sig((tuple(ev), fails, dur, end_at, BF.describe(obs), tuple(sorted(sd.items()))))
                    if sd.get('getting_armed'):
                        st.count('shutdowns_with_timer_armed')
                    if sd.get('func_running'):
                        st.count('shutdowns_with_function_running')
                    if not sd.get('getting_armed') and not sd.get('func_running'):
                        st.count('shutdowns_idle_or_collecting')
                    if run.shutdown_hang:
                        st.violation('shutdown_never_terminates',
                                     f'main() returned at t={end_at} (buffer state {sd}); the stock '
                                     f'asyncio shutdown (cancel all tasks, wait for them) never finished',
                                     {'mode': 'shutdown', 'events': ev, 'fails': fails, 'dur': dur,
                                      'end_at': end_at})
                    elif run.hang or run.error is not None:
                        st.violation('harness_abnormal', f'hang={run.hang} err={run.error!r}',
                                     {'mode': 'shutdown', 'events': ev, 'fails': fails, 'dur': dur,
                                      'end_at': end_at})
                # direct cancellation of the background task at each instant
                for gap in ends[:6]:
                    ev2 = ev + [(max(0.0, gap - sum(g for g, _ in ev)), ('cancel_bg',))]
                    obs, run = BF.execute(aiu, ev2, T, fails, dur, settle=10 * T + 4 * dur)
                    st.executions += 1
                    st.transitions += len(ev2)
                    st.sig(('cancel_bg', tuple(ev2), fails, dur, BF.describe(obs)))
                    if not obs.buf._waiting.done():
                        st.violation('background_task_survives_cancel',
                                     f'buffer background task cancelled at t~{gap} is still running at the end '
                                     f'(calls {[(c["start"], c["args"], c["ok"]) for c in obs.calls]})',
                                     {'mode': 'cancel_bg', 'events': ev2, 'fails': fails, 'dur': dur})
    st.sample({'mode': mode, 'programs': len(seqs), 'gap_vectors': len(gapsets),
               'buffer_states_met_at_shutdown(timer_armed, func_running)': sorted(map(str, states))})
    return st


def plan(tier):
    durs = (0.0, T / 4, 2 * T)
    if tier == 'quick':
        spec = [(1, 1, P.GRID, 2, 6, durs), (2, 1, P.GRID, 2, 6, durs), (3, 1, P.SMALL, 1, 4, (0.0, 2 * T)),
                (4, 0, P.SMALL, 1, 3, (0.0, 2 * T))]
    else:
        spec = [(1, 1, P.GRID, 6, 6, durs), (2, 2, P.GRID, 2, 6, durs), (3, 1, P.GRID, 1, 4, (0.0, 2 * T)),
                (4, 1, P.SMALL, 1, 3, (0.0, 2 * T)), (5, 0, P.SMALL, 1, 3, (0.0,))]
    for n, maxc, grid, maxf, hor, ds in spec:
        envs = [(f, d) for f in P.fail_scripts(maxf, hor) for d in ds]
        gapsets = list(itertools.product(grid, repeat=n - 1))
        seqs = list(P.action_seqs(n, maxc, has_wait))
        step = max(1, len(seqs) // 64)
        for i in range(0, len(seqs), step):
            yield ('program', seqs[i:i + step], gapsets, envs)
    # shutdown sweep
    for n, maxc, grid in ((1, 1, P.GRID), (2, 1, P.SMALL)) if tier == 'quick' else \
            ((1, 1, P.GRID), (2, 1, P.GRID), (3, 0, P.SMALL)):
        envs = [(f, d) for f in P.fail_scripts(1, 2) for d in (0.0, T)]
        gapsets = list(itertools.product(grid, repeat=n - 1))
        seqs = list(P.action_seqs(n, maxc))
        step = max(1, len(seqs) // 32)
        for i in range(0, len(seqs), step):
            yield ('shutdown', seqs[i:i + step], gapsets, envs)


def main(tier):
    t0 = time.time()
    common.use_source()
    total = Stats()
    for st in common.pmap(run_case, list(plan(tier))):
        total.merge(st)
    try:
        from . import c07b
    except ImportError:
        c07b = None
    if c07b is not None:
        c07b.run_into(total, tier)
    return common.finish(
        PID, tier, total, t0,
        rule=('engine A: (1) all programs of 1..4 (thorough 5) submissions and wait(cancel=T/F) calls (up to '
              'n concurrent waiters) x gap grid x failure scripts x durations, barrier oracle at the instant '
              'each wait() returns; (2) shutdown sweep: main() returns at each grid instant of every small '
              'program, stock _cancel_all_tasks must terminate; (3) background task cancelled directly'),
        assumptions=['virtual clock', 'IdleForever inside the stock shutdown sequence = shutdown hangs'])


def replay(path):
    from aiuti import asyncio as aiu
    doc = json.load(open(path))['replay']
    mode = doc.get('mode')
    if mode not in ('program', 'shutdown', 'cancel_bg'):
        from . import c07b
        return c07b.replay_doc(doc)
    ev = [(g, tuple(tuple(tuple(y) if isinstance(y, list) else y for y in x) if isinstance(x, list) else x
                    for x in op)) for g, op in doc['events']]
    kw = {}
    if mode == 'shutdown':
        kw['end_at'] = doc['end_at']
    obs, run = BF.execute(aiu, ev, T, tuple(doc['fails']), doc['dur'], **kw)
    for s in obs.submits:
        print('submit', s['t'], s['kind'], s['values'])
    for c in obs.calls:
        print('call', c['idx'], 'start', c['start'], 'end', c['end'], c['args'], 'ok', c['ok'])
    for w in obs.waits:
        print('wait', w)
    print('shutdown_hang', run.shutdown_hang, 'bg task done', obs.buf._waiting.done())
    bad = P.oracle_c07(obs, run) if mode == 'program' else []
    if mode == 'shutdown' and run.shutdown_hang:
        bad.append(('shutdown_never_terminates', getattr(obs, 'shutdown_state', None)))
    if mode == 'cancel_bg' and not obs.buf._waiting.done():
        bad.append(('background_task_survives_cancel', ''))
    for x in bad:
        print('PROBLEM', x)
    return 1 if bad else 0
