"""C16 - to_async_iter / to_sync_iter preserve the sequence and propagate errors (engine B).

Worlds: every source of length 0..N over {None, 0, '', 1, 1} as list / range / generator /
plain iterator (to_async_iter) or async generator (to_sync_iter), a failure at every position
or none, producer step durations and consumer pauses from {0, D}; for each world EVERY
interleaving (preemption bound PB) of the producer thread's lines with the consuming
loop/thread is executed. A ticker task on the consuming loop shows the loop is not the one
blocked while the producer sleeps; at the end no helper thread may be alive.
"""
import asyncio
import itertools
import json
import time

from mc import common, tx, vloop
from mc.common import Stats

PID = 'C16'
D = 1.0
P = D / 4
VALUES = [None, 0, '', 1, 1]


class Boom(Exception):
    pass


def run_world(aiu, w, prefix=(), expect=None):
    sched = tx.Sched(prefix, expect, horizon=200.0, budget=20000)
    tx.bind_asyncio_seams(aiu, sched)
    vals = [VALUES[i % len(VALUES)] for i in range(w['n'])] if w['kind'] != 'range' else list(range(w['n']))
    failpos = w['failpos']
    err = Boom('source failed')
    obs = {'got': None, 'end': None, 'live': None, 'ticks': [], 'prod_sleeps': [], 'loop_thread': None,
           'prod_threads': set()}

    def live_workers():
        return [t.name for t in sched.pool_threads if t.status != 'done'] + \
            tx.idle_workers(sched, exclude=(aiu._CROSS_LOOP_POOL,))

    live = obs['live_got'] = []

    def gen():
        for i, v in enumerate(vals):
            obs['prod_threads'].add(sched.current_id())
            if w.get('lockstep') and i:
                # the source produces its next element only once the consumer has seen the previous one
                sched.wait_until(lambda i=i: len(live) >= i, None, 'consumer-ack')
            if w['step']:
                a = sched.now
                sched.sleep(w['step'])
                obs['prod_sleeps'].append((a, sched.now))
            if failpos == i:
                raise err
            yield v
        if failpos is not None and failpos >= len(vals):
            raise err

    async def agen():
        for i, v in enumerate(vals):
            if w['step']:
                await asyncio.sleep(w['step'])
            if failpos == i:
                raise err
            yield v
        if failpos is not None and failpos >= len(vals):
            raise err

    def source():
        k = w['kind']
        if k == 'list':
            return list(vals)
        if k == 'range':
            return range(w['n'])
        if k == 'gen':
            return gen()
        if k == 'iter':
            return iter(list(vals))
        if k == 'citer':            # class-based Iterator (not a generator) whose steps block
            class CIter:
                def __init__(self):
                    self._g = gen()

                def __iter__(self):
                    return self

                def __next__(self):
                    return next(self._g)
            return CIter()
        if k == 'reiter':           # re-iterable (not an Iterator) whose iteration may fail part-way
            class ReIterable:
                def __iter__(self):
                    return gen()
            return ReIterable()
        raise ValueError(k)

    if w['api'] == 'async':
        def body():
            async def tick():
                while True:
                    await asyncio.sleep(P)
                    obs['ticks'].append(sched.now)

            async def main():
                obs['loop_thread'] = sched.current_id()
                ticker = asyncio.ensure_future(tick()) if w.get('ticker', True) else None
                got = []
                try:
                    async for x in aiu.to_async_iter(source()):
                        got.append(x)
                        live.append(x)
                        if w['pause']:
                            await asyncio.sleep(w['pause'])
                    end = ('stop',)
                except BaseException as e:   # noqa
                    if isinstance(e, (tx.SchedAbort, asyncio.CancelledError)):
                        raise
                    end = ('exc', e)
                obs['got'], obs['end'], obs['live'] = got, end, live_workers()
                if ticker is not None:
                    ticker.cancel()
            asyncio.run(main(), loop_factory=lambda: sched.new_loop('C'))
    elif w['api'] == 'sync2':      # two bridges alive at the same time (zip), default loops
        vloop.install_policy()

        def body():
            got = []
            try:
                for a, b in zip(aiu.to_sync_iter(agen()), aiu.to_sync_iter(agen())):
                    got.append(a)
                    if b is not a and b != a:
                        got.append(('MISMATCH', b))
                end = ('stop',)
            except tx.SchedAbort:
                raise
            except BaseException as e:   # noqa
                end = ('exc', e)
            obs['got'], obs['end'], obs['live'] = got, end, []
    else:
        vloop.install_policy()

        def body():
            lp = None
            if w.get('own_loop'):
                lp = sched.new_loop('given')
            got = []
            try:
                for x in aiu.to_sync_iter(agen(), loop=lp):
                    got.append(x)
                    if w['pause']:
                        sched.sleep(w['pause'])
                end = ('stop',)
            except tx.SchedAbort:
                raise
            except BaseException as e:   # noqa
                end = ('exc', e)
            obs['got'], obs['end'], obs['live'] = got, end, live_workers()
    sched.spawn(body, name='consumer')
    aborted = sched.run()
    x = tx.Execution()
    x.choices, x.aborted, x.trace, x.sched = sched.choices, aborted, sched.trace, sched
    x.leaked = getattr(sched, 'leaked', 0)
    x.result = (obs, vals, err, [(t.name, repr(t.error)) for t in sched.threads if t.error is not None])
    return x


def check(x, w):
    obs, vals, err, terr = x.result
    bad = []
    if x.aborted:
        bad.append((f'never_finishes_{x.aborted}', f'execution aborted: {x.aborted}; consumer saw {obs["got"]}'))
        return bad
    if obs['end'] is None:
        bad.append(('consumer_died', f'thread errors: {terr}'))
        return bad
    failpos = w['failpos']
    want = vals if failpos is None else vals[:failpos]
    got = obs['got']
    if len(got) != len(want) or any(a is not b and a != b for a, b in zip(got, want)) or \
            [type(a) for a in got] != [type(a) for a in want]:
        bad.append(('wrong_sequence', f'consumed {got!r}, source yields {want!r} (failure position {failpos})'))
    if failpos is None:
        if obs['end'] != ('stop',):
            bad.append(('spurious_error', f'source does not fail but the consumer got {obs["end"]!r}'))
    else:
        if obs['end'][0] != 'exc' or obs['end'][1] is not err:
            bad.append(('error_not_propagated', f'source raised {err!r} after {failpos} elements; consumer got '
                                                f'{obs["end"]!r}'))
    if obs['live']:
        bad.append(('helper_thread_left_running', f'{obs["live"]} alive when iteration finished'))
    # the loop must keep ticking while the producer thread is blocked in next()
    if w['api'] == 'async' and w['kind'] in ('gen', 'citer') and w['step'] and w.get('ticker', True):
        if obs['loop_thread'] in obs['prod_threads']:
            bad.append(('iterator_runs_on_loop_thread', 'the synchronous iterator was advanced by the loop thread'))
        for a, b in obs['prod_sleeps']:
            n = sum(1 for t in obs['ticks'] if a < t <= b + 1e-9)
            if n < int((b - a) / P) - 1:
                bad.append(('event_loop_blocked', f'producer blocked during [{a},{b}] but the loop ticked {n} '
                                                  f'times (period {P})'))
                break
    return bad


def worlds(tier):
    q = tier == 'quick'
    out = []
    nmax = 4 if q else 6
    for api in ('async', 'sync'):
        kinds = ('list', 'range', 'gen', 'iter', 'reiter', 'citer') if api == 'async' else ('agen',)
        for kind in kinds:
            for n in range(0, nmax + 1):
                fps = [None] + list(range(0, n + 1))
                if kind in ('list', 'range', 'iter'):
                    fps = [None]
                if kind == 'reiter':
                    fps = list(range(0, n + 1))
                for fp in fps:
                    for step in ((0.0, D) if kind in ('gen', 'agen', 'citer') else (0.0,)):
                        for pause in (0.0, D) if n and kind in ('gen', 'agen') else (0.0,):
                            if q and n >= 4 and (step and pause):
                                continue
                            for own in ((False, True) if api == 'sync' and n <= 1 else (False,)):
                                w = dict(api=api, kind=kind, n=n, failpos=fp, step=step, pause=pause, own_loop=own)
                                threaded = kind in ('gen', 'iter', 'agen', 'citer')
                                pb = (3 if n <= 2 else 2) if q else (4 if n <= 2 else 3)
                                out.append((w, pb if threaded else 0))
    # an otherwise idle loop (no ticker) and a source in lock-step with its consumer
    for kind in ('gen', 'citer'):
        for n in (1, 2, 3) if q else (1, 2, 3, 4):
            for fp in (None, n - 1, n):
                for step in (0.0, D):
                    out.append((dict(api='async', kind=kind, n=n, failpos=fp, step=step, pause=0.0, own_loop=False,
                                     lockstep=True, ticker=False), 2 if q else 3))
    for n in (1, 2, 3):
        for step in (0.0, D):
            out.append((dict(api='sync2', kind='agen', n=n, failpos=None, step=step, pause=0.0, own_loop=False),
                        1 if q else 2))
    return out


def run_item(item):
    from aiuti import asyncio as aiu
    w, pb, shard, nsh = item
    tx.install_monitoring(common.SRC)
    tx.save_asyncio_seams(aiu)
    st = Stats()

    def run_one(prefix, expect):
        x = run_world(aiu, w, prefix, expect)
        if x.aborted == 'wall_timeout':
            raise common.MachineryError(f'wall-clock timeout in world {w} prefix {prefix}')
        return x

    def on_exec(prefix, x):
        st.executions += 1
        st.transitions += x.sched.points
        obs = x.result[0]
        st.sig((tuple(sorted(w.items(), key=str)), repr(obs['got']), repr(obs['end']), x.aborted,
                tuple(obs['ticks'][:3])))
        st.count('scheduling_choices', len(x.choices))
        for kind, detail in check(x, w):
            st.violation(kind, f'[{w}] ' + detail, {'w': w, 'prefix': list(prefix)})
    try:
        root = run_one((), None)
        if shard == 0:
            on_exec((), root)
        for i, kid in enumerate(tx.children(root.choices, 0, pb)):
            if i % nsh == shard:
                tx.explore(run_one, pb, root=kid, on_exec=on_exec, stop=lambda: st.extra.get('violations_total', 0) >= 12)
    except tx.Divergence as e:
        raise common.MachineryError(f'world {w}: {e}')
    finally:
        tx.restore_asyncio_seams(aiu)
    if shard == 0:
        st.sample({'world': w, 'preemption_bound': pb, 'root_choice_points': len(root.choices)})
    return st


def main(tier):
    t0 = time.time()
    common.use_source()
    items = []
    for w, pb in worlds(tier):
        nsh = 4 if pb >= 2 and w['n'] >= 2 else 1
        items += [(w, pb, s, nsh) for s in range(nsh)]
    total = Stats()
    for st in common.pmap(run_item, items):
        total.merge(st)
    return common.finish(
        PID, tier, total, t0,
        rule=('all sources of length 0..4 (thorough 6) over {None,0,\'\',1,1} as list / range / generator / '
              'iterator (to_async_iter) and async generator (to_sync_iter, loop=None and a given idle loop), failure '
              'at every position or none, producer step duration and consumer pause in {0, D}; every interleaving '
              'with <= PB preemptions of the producer thread with the consumer (line-granular + shim operations); '
              'oracle: sequence == source prefix, same exception instance, ticker keeps ticking while the '
              'producer is blocked, no helper thread alive at the end; plus lock-step sources (next element only after the '
              'consumer saw the previous one) on an otherwise idle loop: iteration must still finish'),
        assumptions=['one aiuti source line / stdlib call is atomic', 'virtual clock'])


def replay(path):
    from aiuti import asyncio as aiu
    doc = json.load(open(path))['replay']
    tx.install_monitoring(common.SRC)
    tx.save_asyncio_seams(aiu)
    res = []
    for _ in range(2):
        x = run_world(aiu, doc['w'], tuple(doc['prefix']), None)
        bad = check(x, doc['w'])
        res.append([b[0] for b in bad])
    print('consumed', x.result[0]['got'], 'end', x.result[0]['end'], 'aborted', x.aborted)
    for b in bad:
        print('PROBLEM', b)
    if res[0] != res[1]:
        print('machinery error: replay not deterministic')
        return 2
    return 1 if bad else 0
