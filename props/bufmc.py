"""Engine-B worlds for buffer_until_timeout with foreign submitting threads (C03, C07).

Loop thread: asyncio.run(main) creates the buffer, submits its own arguments on a timed
program, then keeps the loop alive. 1..2 foreign threads submit (plain / map(list)) at offsets
on the grid - including the very instant the wrapped function returns - and optionally call
asyncio.run(buf.wait_from_anywhere()). Every interleaving with <= PB preemptions of the foreign
threads' lines (_put, __call__, map) with the loop thread's lines (_process_queue, _run_func,
_empty_queue, wait) is executed.
"""
import asyncio
import json

from mc import common, tx
from mc.common import Stats

T = 1.0


class FuncError(Exception):
    pass


def run_world(aiu, w, prefix=(), expect=None):
    sched = tx.Sched(prefix, expect, horizon=200.0, budget=30000)
    tx.bind_asyncio_seams(aiu, sched)
    shared = {}
    calls = []
    submitted = []        # (t, who, value)
    waits = []
    fails = w.get('fails', ())
    dur = w.get('dur', 0.0)
    delivered = set()
    running = [0]
    overlap = [False]

    async def func(args):
        idx = len(calls)
        rec = {'idx': idx, 'start': sched.now, 'args': tuple(sorted(args)), 'ok': None, 'end': None}
        calls.append(rec)
        running[0] += 1
        if running[0] > 1:
            overlap[0] = True
        try:
            if dur:
                await asyncio.sleep(dur)
        finally:
            running[0] -= 1
        rec['end'] = sched.now
        rec['args_end'] = tuple(sorted(args))
        if idx < len(fails) and fails[idx]:
            rec['ok'] = False
            raise FuncError(idx)
        rec['ok'] = True
        delivered.update(rec['args_end'])

    def loop_thread():
        async def main():
            buf = aiu.buffer_until_timeout(func, timeout=T)
            shared['loop'] = asyncio.get_running_loop()
            shared['buf'] = buf
            for gap, x in w['own']:
                if gap:
                    await asyncio.sleep(gap)
                submitted.append((sched.now, 'loop', x))
                buf(x)
            if w.get('own_wait') is not None:       # the loop thread itself forces a flush
                await asyncio.sleep(w['own_wait'])
                await buf.wait(cancel=True)
            await asyncio.sleep(w.get('settle', 8 * T))
            shared['over'] = True
        asyncio.run(main(), loop_factory=lambda: sched.new_loop('L'))

    def foreign(fi, spec):
        def body():
            while 'buf' not in shared:
                sched.spin()
            buf = shared['buf']
            if spec.get('current_loop'):
                # this thread has the buffer's loop as ITS current event loop (the thread that created the loop
                # and then handed it to loop_in_thread, as in the library's doctests) without running it
                asyncio.set_event_loop(shared['loop'])
            if spec['offset']:
                sched.sleep(spec['offset'])
            mine = []
            for kind, vals in spec['subs']:
                if kind == 'put':
                    submitted.append((sched.now, f'f{fi}', vals))
                    mine.append(vals)
                    buf(vals)
                else:
                    for v in vals:
                        submitted.append((sched.now, f'f{fi}', v))
                        mine.append(v)
                    buf.map(list(vals))
            if spec.get('wait') is not None:
                rec = {'who': fi, 't': sched.now, 'before': set(mine), 'ret_t': None, 'delivered': None}
                waits.append(rec)

                async def wmain():
                    await buf.wait_from_anywhere(cancel=spec['wait'])
                    rec['ret_t'] = sched.now
                    rec['delivered'] = set(delivered)
                asyncio.run(wmain(), loop_factory=lambda: sched.new_loop(f'W{fi}'))
        return body
    sched.spawn(loop_thread, name='loop')
    for fi, spec in enumerate(w['foreign']):
        sched.spawn(foreign(fi, spec), name=f'foreign{fi}')
    aborted = sched.run()
    shared.clear()
    x = tx.Execution()
    x.choices, x.aborted, x.trace, x.sched = sched.choices, aborted, sched.trace, sched
    x.leaked = getattr(sched, 'leaked', 0)
    x.result = {'calls': calls, 'submitted': submitted, 'waits': waits, 'overlap': overlap[0],
                'errors': [(t.name, repr(t.error)) for t in sched.threads if t.error is not None]}
    return x


def oracle_c03(x, w):
    r = x.result
    bad = []
    if x.aborted:
        return [(f'execution_{x.aborted}', f'calls {[(c["start"], c["args"], c["ok"]) for c in r["calls"]]}')]
    if r['errors']:
        return [('thread_raised', repr(r['errors']))]
    good = [c for c in r['calls'] if c['ok']]
    allsub = {v for _, _, v in r['submitted']}
    got = set()
    for c in good:
        got |= set(c['args_end'])
    if allsub - got:
        bad.append(('argument_lost', f'submitted {sorted(allsub - got)} never reached a successful call; calls '
                                     f'{[(c["start"], c["args"], c["ok"]) for c in r["calls"]]}; submissions '
                                     f'{r["submitted"]}'))
    for c in r['calls']:
        avail = {v for t, _, v in r['submitted'] if t <= (c['end'] if c['end'] is not None else 1e18) + 1e-9}
        extra = set(c.get('args_end', c['args'])) - avail
        if extra:
            bad.append(('unsubmitted_argument', f'call at {c["start"]} got {sorted(extra)}'))
    for t, who, v in r['submitted']:
        if who == 'loop':
            n = sum(1 for c in good if v in c['args_end'])
            if n > 1:
                bad.append(('delivered_twice',
                            f'argument {v} submitted from the loop thread at t={t} is in {n} successful calls: '
                            f'{[(c["start"], c["args_end"]) for c in good if v in c["args_end"]]}; submissions '
                            f'{r["submitted"]}'))
    if r['overlap']:
        bad.append(('overlapping_invocations', repr([(c['start'], c['end']) for c in r['calls']])))
    return bad


def oracle_c07(x, w):
    r = x.result
    bad = []
    if x.aborted:
        pend = [wt for wt in r['waits'] if wt['ret_t'] is None]
        return [(f'wait_never_returned_{x.aborted}' if pend else f'execution_{x.aborted}',
                 f'waits {r["waits"]}; calls {[(c["start"], c["args"], c["ok"]) for c in r["calls"]]}')]
    if r['errors']:
        if any('CancelledError' in e for _, e in r['errors']) and any(wt['ret_t'] is None for wt in r['waits']):
            return [('wait_never_returned', f'wait_from_anywhere() only ended (cancelled) when the buffer loop shut '
                                            f'down: {r["errors"]}; waits {r["waits"]}')]
        return [('thread_raised', repr(r['errors']))]
    for wt in r['waits']:
        if wt['ret_t'] is None:
            bad.append(('wait_never_returned', repr(wt)))
            continue
        missing = wt['before'] - wt['delivered']
        if missing:
            bad.append(('wait_returned_early',
                        f'foreign thread {wt["who"]} submitted {sorted(wt["before"])}, called wait_from_anywhere at '
                        f't={wt["t"]}, it returned at {wt["ret_t"]} but {sorted(missing)} had not been delivered '
                        f'successfully; calls {[(c["start"], c["end"], c["args"], c["ok"]) for c in r["calls"]]}'))
    return bad


def worlds(tier, with_wait):
    q = tier == 'quick'
    out = []
    offsets = (0.0, T / 4, T - 1 / 64, T, T + 1 / 64, T + T / 4)
    for own in ([(0.0, 100)], [(0.0, 100), (T / 4, 101)], []):
        for dur in (0.0, T / 4):
            for fails in ((), (True,)):
                for off in offsets:
                    # the instant the function returns: first call starts at (last own arrival + T)
                    offs = [off]
                    if own:
                        offs.append(sum(g for g, _ in own) + T + dur)
                    for o in offs:
                        for subs in ([('put', 1)], [('put', 1), ('put', 2)], [('map', (1, 2))]):
                            if q and (len(subs) > 1 and (dur or fails)):
                                continue
                            for wait in ((None,) if not with_wait else (True, False)):
                                wld = {'own': own, 'dur': dur, 'fails': fails,
                                       'foreign': [{'offset': o, 'subs': subs, 'wait': wait}]}
                                pb = 1
                                if own and o == sum(g for g, _ in own) + T + dur and (not fails or not q):
                                    pb = 2       # the race with the completion flag
                                if not q and own and len(subs) == 1 and not dur and not fails:
                                    pb = 2
                                out.append((wld, pb))
    # the loop thread flushes with wait(); a foreign thread submits at the instant that flush call returns
    for ow in (0.0, T / 4):
        for dur in (0.0, T / 4):
            for subs in ([('put', 1)], [('map', (1, 2))]):
                for wait in ((None,) if not with_wait else (True,)):
                    out.append(({'own': [(0.0, 100)], 'own_wait': ow, 'dur': dur, 'fails': (),
                                 'foreign': [{'offset': ow + dur, 'subs': subs, 'wait': wait}]}, 2))
    # a submitting thread whose current (not running) event loop is the buffer's loop
    for own in ([], [(0.0, 100)]):
        for o in (0.0, T / 4, T + T / 4, 3 * T):
            for subs in ([('put', 1)], [('map', (1, 2))], [('put', 1), ('put', 2)]):
                for wait in ((None,) if not with_wait else (True, False)):
                    out.append(({'own': own, 'dur': 0.0, 'fails': (),
                                 'foreign': [{'offset': o, 'subs': subs, 'wait': wait, 'current_loop': True}]}, 1))
    # two foreign threads
    for o2 in (0.0, T):
        for wait in ((None,) if not with_wait else (True,)):
            out.append(({'own': [(0.0, 100)], 'dur': 0.0, 'fails': (),
                         'foreign': [{'offset': T, 'subs': [('put', 1)], 'wait': wait},
                                     {'offset': o2, 'subs': [('put', 2)], 'wait': wait}]}, 1))
    # dedupe
    seen, res = set(), []
    for wld, pb in out:
        k = json.dumps(wld, sort_keys=True)
        if k not in seen:
            seen.add(k)
            res.append((wld, pb))
    return res


def run_item(item):
    from aiuti import asyncio as aiu
    which, chunk, shard, nsh = item
    oracle = oracle_c03 if which == 'C03' else oracle_c07
    tx.install_monitoring(common.SRC)
    tx.save_asyncio_seams(aiu)
    st = Stats()
    try:
        for w, pb in chunk:
            def run_one(prefix, expect, w=w):
                x = run_world(aiu, w, prefix, expect)
                if x.aborted == 'wall_timeout':
                    raise common.MachineryError(f'wall-clock timeout in world {w} prefix {prefix}')
                return x

            def on_exec(prefix, x, w=w):
                st.executions += 1
                st.transitions += x.sched.points
                r = x.result
                st.sig((json.dumps(w, sort_keys=True), tuple((c['start'], c['args'], c['ok']) for c in r['calls']),
                        tuple((wt['ret_t']) for wt in r['waits']), x.aborted))
                st.count('thread_schedules', 1)
                st.count('scheduling_choices', len(x.choices))
                for kind, detail in oracle(x, w):
                    st.violation(kind, f'[{w}] ' + detail, {'mode': 'threads', 'w': w, 'prefix': list(prefix)})
            try:
                if nsh == 1:
                    tx.explore(run_one, pb, on_exec=on_exec, fbound=2, stop=lambda: st.extra.get('violations_total', 0) >= 12)
                else:
                    root = run_one((), None)
                    if shard == 0:
                        on_exec((), root)
                    for i, kid in enumerate(tx.children(root.choices, 0, pb, 2)):
                        if i % nsh == shard:
                            tx.explore(run_one, pb, root=kid, on_exec=on_exec, fbound=2, stop=lambda: st.extra.get('violations_total', 0) >= 12)
            except tx.Divergence as e:
                raise common.MachineryError(f'world {w}: {e}')
        if not shard:
            st.sample({'engine': 'B (threads)', 'world': chunk[0][0], 'preemption_bound': chunk[0][1]})
    finally:
        tx.restore_asyncio_seams(aiu)
    return st


def run_into(total, tier, which):
    ws = worlds(tier, with_wait=(which == 'C07'))
    heavy = [x for x in ws if x[1] >= 2]
    light = [x for x in ws if x[1] < 2]
    items = [(which, [x], s, 8) for x in heavy for s in range(8)] + \
            [(which, light[i:i + 4], 0, 1) for i in range(0, len(light), 4)]
    for st in common.pmap(run_item, items):
        total.merge(st)
    total.count('thread_worlds', len(ws))


def replay_doc(doc, which):
    from aiuti import asyncio as aiu
    tx.install_monitoring(common.SRC)
    tx.save_asyncio_seams(aiu)
    oracle = oracle_c03 if which == 'C03' else oracle_c07
    w = doc['w']
    w['own'] = [tuple(o) for o in w['own']]
    w['fails'] = tuple(w['fails'])
    for f in w['foreign']:
        f['subs'] = [(k, tuple(v) if isinstance(v, list) else v) for k, v in f['subs']]
    res = []
    for _ in range(2):
        x = run_world(aiu, w, tuple(doc['prefix']), None)
        bad = oracle(x, w)
        res.append([b[0] for b in bad])
    print('calls', [(c['start'], c['end'], c['args'], c['ok']) for c in x.result['calls']])
    print('submitted', x.result['submitted'], 'waits', x.result['waits'], 'aborted', x.aborted)
    for b in bad:
        print('PROBLEM', b)
    if res[0] != res[1]:
        print('machinery error: replay not deterministic')
        return 2
    return 1 if bad else 0
