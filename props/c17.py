"""C17 - cross-loop awaiting: ensure_aw / run_aw_threadsafe / loop_in_thread (engine B).

Worlds: one target loop that is idle, running via loop_in_thread, the caller's own, or closed;
2..3 caller threads (each its own loop) doing ensure_aw / run_aw_threadsafe with coroutine /
Future / Task awaitables that return, raise or sleep on the target's clock; loop_in_thread
racing ensure_aw on a fresh loop; an owner thread calling stop() at an instant. Every
interleaving with <= PB preemptions (line-granular in aiuti code + lock / pool / spin / select
operations) is executed on the real helpers.
"""
import asyncio
import json
import time

from mc import common, tx, vloop
from mc.common import Stats

PID = 'C17'
D = 1.0
FB = [1]      # bound on non-default choices at points where the running thread blocked (per tier)


class AwErr(Exception):
    pass


def run_world(aiu, w, prefix=(), expect=None):
    sched = tx.Sched(prefix, expect, horizon=300.0, budget=30000)
    tx.bind_asyncio_seams(aiu, sched)
    vloop.install_policy()
    obs = {'callers': {}, 'aw': {}, 'lit': None, 'stop': None, 'errors': [], 'target': None}
    ncall = len(w['callers'])

    def main_thread():
        target = sched.new_loop('target')
        obs['target'] = target
        aws = []
        for i, c in enumerate(w['callers']):
            val, exc = ('val', i), AwErr(i)
            rec = {'started': False, 'loop_ok': None, 'finished': False, 'val': val, 'exc': exc}
            obs['aw'][i] = rec

            async def co(c=c, rec=rec, val=val, exc=exc):
                rec['started'] = True
                rec['loop_ok'] = asyncio.get_running_loop() is rec.get('expected_loop', target)
                rec['thread'] = sched.current_id()
                if c.get('busy'):          # the awaitable computes for a while: others may act while the loop runs it
                    sched.point('aw.busy')
                if c['d']:
                    await asyncio.sleep(c['d'])
                rec['finished'] = True
                if c['out'] == 'raise':
                    raise exc
                return val
            if c['aw'] == 'coro':
                aws.append(co)                      # created by the caller itself
            elif c['aw'] == 'future':
                fut = target.create_future()

                def resolve(fut=fut, c=c, rec=rec, val=val, exc=exc):
                    rec['started'] = rec['finished'] = True
                    rec['loop_ok'] = True
                    if c['out'] == 'raise':
                        fut.set_exception(exc)
                    else:
                        fut.set_result(val)
                if c['d']:
                    target.call_later(c['d'], resolve)
                else:
                    resolve()
                aws.append(lambda fut=fut: fut)
            else:
                t = target.create_task(co())
                sched.keep.append(t)
                aws.append(lambda t=t: t)
        for pi, pre in enumerate(w.get('pre', ())):
            # earlier, completed use of the (still idle) target by this very thread
            perr = AwErr(('pre', pi))

            async def pre_co(pre=pre, perr=perr):
                if pre['out'] == 'raise':
                    raise perr
                return ('pre', pi)

            async def pre_main():
                try:
                    return ('ret', await aiu.ensure_aw(pre_co(), target))
                except tx.SchedAbort:
                    raise
                except BaseException as e:   # noqa
                    return ('exc', e)
            pout = asyncio.run(pre_main(), loop_factory=lambda: sched.new_loop(f'pre{pi}'))
            want = ('exc', perr) if pre['out'] == 'raise' else ('ret', ('pre', pi))
            if pout[0] != want[0] or (pout[0] == 'exc' and pout[1] is not perr):
                obs['errors'].append(f'pre-call {pi} got {pout!r}, expected {want!r}')
        if w['target'] == 'closed':
            target.close()
        stop = None
        if w['target'] == 'running':
            stop = aiu.loop_in_thread(target)
            obs['lit'] = target.is_running()
            me_id = sched.current_id()
            obs['lit_threads'] = [t for t in sched.pool_threads if t.parent == me_id]
        done = []

        def caller_body(i, c):
            obs.setdefault('caller_tid', {})[i] = sched.current_id()
            if c.get('offset'):
                sched.sleep(c['offset'])

            async def main():
                own = asyncio.get_running_loop()
                tgt = own if w['target'] == 'own' else target
                obs['aw'][i]['expected_loop'] = tgt
                aw = aws[i]()
                try:
                    if c['api'] == 'ensure':
                        r = await aiu.ensure_aw(aw, tgt)
                    else:
                        r = await aiu.run_aw_threadsafe(aw, tgt)
                    return ('ret', r)
                except tx.SchedAbort:
                    raise
                except BaseException as e:   # noqa
                    if asyncio.iscoroutine(aw):
                        aw.close()
                    return ('exc', e)
            try:
                out = asyncio.run(main(), loop_factory=lambda: sched.new_loop(f'c{i}'))
            except tx.SchedAbort:
                raise
            except BaseException as e:   # noqa
                out = ('run_failed', e)
            obs['callers'][i] = {'out': out, 't': sched.now}
            done.append(i)
        threads = []
        if w.get('race_lit'):
            # loop_in_thread races the callers on the fresh idle loop
            def lit_body():
                st = aiu.loop_in_thread(target)
                obs['lit'] = target.is_running()
                me_id = sched.current_id()      # the pool thread(s) loop_in_thread itself started
                obs['lit_threads'] = [t for t in sched.pool_threads if t.parent == me_id]
                obs['stopfn'] = st
            threads.append(sched.spawn(lit_body, name='lit'))
        for i, c in enumerate(w['callers']):
            threads.append(sched.spawn(lambda i=i, c=c: caller_body(i, c), name=f'caller{i}'))
        if w.get('stop_at') is not None:
            sched.sleep(w['stop_at']) if w['stop_at'] > 0 else sched.point('stop_now')
        elif w.get('race_lit'):
            # the owner of the loop_in_thread loop stops it at its own time, independent of the callers
            # (a caller that found the loop idle queues behind the per-loop lock until then)
            sched.sleep(5 * D)
        else:
            sched.wait_until(lambda: len(done) == ncall, None, 'join-callers')
        if w.get('race_lit'):
            sched.wait_until(lambda: 'stopfn' in obs, None, 'join-lit')
            stop = obs['stopfn']
        if stop is not None:
            stop()
            # stopped = the thread loop_in_thread started has left run_forever (another helper may
            # legitimately be running the loop again by now)
            obs['stop'] = any(t.status != 'done' for t in obs.get('lit_threads', []))
        if w.get('stop_at') is not None or w.get('race_lit'):
            # owner stopped on its own schedule: wait for the callers afterwards
            sched.wait_until(lambda: len(done) == ncall, 200.0 if w.get('stop_at') is not None else None,
                             'join-callers-late')
        obs['max_runners'] = target.max_runners
        if not target.is_closed() and not target.is_running():
            target.close()

    sched.keep = []
    sched.spawn(main_thread, name='main')
    aborted = sched.run()
    obs['pool_threads'] = [(t.parent, t.name, t.status) for t in sched.pool_threads]
    x = tx.Execution()
    x.choices, x.aborted, x.trace, x.sched = sched.choices, aborted, sched.trace, sched
    x.leaked = getattr(sched, 'leaked', 0)
    x.result = (obs, [(t.name, repr(t.error)) for t in sched.threads if t.error is not None])
    return x


def check(x, w):
    obs, terr = x.result
    bad = []
    early_stop = w.get('stop_at') is not None
    tgt = obs['target']
    if tgt is not None and getattr(tgt, 'max_runners', 0) > 1:
        bad.append(('loop_run_by_two_threads', f'target loop had {tgt.max_runners} concurrent runners'))
    for e in obs.get('errors', []):
        bad.append(('wrong_outcome', e))
    for name, err in terr:
        if 'already running' in err or 'RuntimeError' in err:
            bad.append(('helper_thread_error', f'{name}: {err}'))
    if w['target'] == 'running' or w.get('race_lit'):
        if obs['lit'] is False:
            bad.append(('loop_in_thread_returned_before_running', 'is_running() was False right after it returned'))
        if obs['stop'] is True:
            bad.append(('stop_returned_while_running', 'is_running() still True after stop() returned'))
    for i, c in enumerate(w['callers']):
        rec = obs['aw'].get(i)
        got = obs['callers'].get(i)
        if got is None:
            if early_stop and rec is not None and not rec['finished']:
                continue            # stranded by the owner stopping the loop: not judged
            kind = 'caller_never_completes'
            own_pool = [t for t in obs.get('pool_threads', []) if t[0] == obs.get('caller_tid', {}).get(i)]
            if w['target'] == 'idle' and not w.get('race_lit') and not own_pool and len(w['callers']) > 1:
                # the caller found the target "running" (another ensure_aw had borrowed it) and queued its
                # work with run_aw_threadsafe; the borrower's run ended before that work was (completely)
                # processed and nobody runs the loop again
                kind = 'ensure_aw_stranded_on_borrowed_run'
            bad.append((kind,
                        f'caller {i} ({c}) still pending (awaitable started={rec and rec["started"]}, '
                        f'finished={rec and rec["finished"]}); abort={x.aborted}'))
            continue
        out = got['out']
        if w['target'] == 'closed':
            if out[0] != 'exc' or not isinstance(out[1], RuntimeError):
                bad.append(('closed_target_not_refused', f'caller {i}: {out!r}'))
            continue
        if early_stop and out[0] == 'exc' and not rec['finished']:
            continue                # target stopped/closed under the call by its owner
        want = ('exc', rec['exc']) if c['out'] == 'raise' else ('ret', rec['val'])
        if out[0] != want[0] or out[1] is not want[1]:
            bad.append(('wrong_outcome', f'caller {i} ({c}) got {out!r}, its awaitable produces {want!r}'))
        if rec['loop_ok'] is False:
            bad.append(('evaluated_on_wrong_loop', f'awaitable {i} did not run on the target loop'))
    if x.aborted and not bad and not early_stop:
        bad.append((f'execution_{x.aborted}', f'aborted: {x.aborted}; thread errors {terr}'))
    return bad


def worlds(tier):
    q = tier == 'quick'
    out = []

    def add(w, pb):
        out.append((w, pb))
    kinds_idle = ('coro', 'future', 'task')
    # idle target, 2 callers: every pair of (awaitable kind, outcome, duration)
    for a0 in kinds_idle:
        for a1 in kinds_idle:
            for d0, d1 in ((0.0, 0.0), (D, 0.0), (D, D)):
                for o0, o1 in (('ret', 'ret'), ('raise', 'ret')):
                    if q and (a0, a1) not in (('coro', 'coro'), ('coro', 'future'), ('task', 'coro'), ('future', 'task')):
                        continue
                    core = (a0, a1, d0, d1, o0) in (('coro', 'coro', 0.0, 0.0, 'ret'), ('coro', 'future', D, 0.0, 'ret'))
                    add({'target': 'idle', 'callers': [
                        {'api': 'ensure', 'aw': a0, 'd': d0, 'out': o0},
                        {'api': 'ensure', 'aw': a1, 'd': d1, 'out': o1}]}, (2 if core else 1) if q else 2)
    # idle target, awaitables that keep the borrowed run busy (a scheduling point while the loop is running)
    for b0, b1 in ((True, False), (True, True)):
        for o0 in ('ret', 'raise'):
            add({'target': 'idle', 'callers': [
                {'api': 'ensure', 'aw': 'coro', 'd': 0.0, 'out': o0, 'busy': b0},
                {'api': 'ensure', 'aw': 'coro', 'd': 0.0, 'out': 'ret', 'busy': b1}]}, 2)
    if not q:
        add({'target': 'idle', 'callers': [{'api': 'ensure', 'aw': 'coro', 'd': 0.0, 'out': 'ret', 'busy': True}
                                           for _ in range(3)]}, 2)
    # running target
    for api0, api1 in (('ensure', 'ensure'), ('ensure', 'threadsafe'), ('threadsafe', 'threadsafe')):
        for d0, d1 in ((0.0, 0.0), (D, 0.0)):
            for o1 in ('ret', 'raise'):
                add({'target': 'running', 'callers': [
                    {'api': api0, 'aw': 'coro', 'd': d0, 'out': 'ret'},
                    {'api': api1, 'aw': 'coro', 'd': d1, 'out': o1}]},
                    2 if not q or (api0, api1, d0, o1) == ('ensure', 'threadsafe', 0.0, 'ret') else 1)
    # the idle target was used (successfully or not) by an earlier ensure_aw before it is run for good
    for pre_out in ('raise', 'ret'):
        for api in ('ensure', 'threadsafe'):
            add({'target': 'running', 'pre': [{'out': pre_out}], 'callers': [
                {'api': api, 'aw': 'coro', 'd': 0.0, 'out': 'ret'}]}, 1)
        add({'target': 'idle', 'pre': [{'out': pre_out}], 'callers': [
            {'api': 'ensure', 'aw': 'coro', 'd': D, 'out': 'ret'},
            {'api': 'ensure', 'aw': 'coro', 'd': 0.0, 'out': 'ret'}]}, 1)
    # owner stops early
    for stop_at in (0.0, D / 2):
        add({'target': 'running', 'stop_at': stop_at, 'callers': [
            {'api': 'ensure', 'aw': 'coro', 'd': D, 'out': 'ret'},
            {'api': 'ensure', 'aw': 'coro', 'd': 0.0, 'out': 'ret'}]}, 1)
    # own loop, closed loop
    for aw in ('coro',):
        for o in ('ret', 'raise'):
            add({'target': 'own', 'callers': [{'api': 'ensure', 'aw': aw, 'd': D, 'out': o}]}, 0)
    add({'target': 'closed', 'callers': [{'api': 'ensure', 'aw': 'coro', 'd': 0.0, 'out': 'ret'},
                                         {'api': 'ensure', 'aw': 'coro', 'd': 0.0, 'out': 'ret'}]}, 1)
    # loop_in_thread racing ensure_aw on a fresh loop
    for d in (0.0, D):
        add({'target': 'idle', 'race_lit': True, 'callers': [
            {'api': 'ensure', 'aw': 'coro', 'd': d, 'out': 'ret'}]}, 2 if not q or d == 0.0 else 1)
        add({'target': 'idle', 'race_lit': True, 'callers': [
            {'api': 'ensure', 'aw': 'coro', 'd': d, 'out': 'ret'},
            {'api': 'ensure', 'aw': 'coro', 'd': 0.0, 'out': 'raise'}]}, 1 if q else 2)
    # chains of borrowed runs: A runs the idle target, B queues behind it, C arrives while B runs
    for da, db, oc, dc in ((D / 2, D, 0.75 * D, D), (D / 2, D, 0.75 * D, 2 * D), (D, D / 2, 1.25 * D, D),
                           (D / 2, 2 * D, 0.75 * D, D / 2)):
        add({'target': 'idle', 'callers': [
            {'api': 'ensure', 'aw': 'coro', 'd': da, 'out': 'ret'},
            {'api': 'ensure', 'aw': 'coro', 'd': db, 'out': 'ret'},
            {'api': 'ensure', 'aw': 'coro', 'd': dc, 'out': 'ret', 'offset': oc}]}, 1)
    # three callers on an idle target
    add({'target': 'idle', 'callers': [{'api': 'ensure', 'aw': 'coro', 'd': d, 'out': 'ret'} for d in (0.0, D, 0.0)]},
        1 if q else 2)
    return out


def run_item(item):
    from aiuti import asyncio as aiu
    w, pb, shard, nsh, fb = item
    FB[0] = fb
    tx.install_monitoring(common.SRC)
    tx.save_asyncio_seams(aiu)
    st = Stats()

    def run_one(prefix, expect):
        x = run_world(aiu, w, prefix, expect)
        if x.aborted == 'wall_timeout':
            raise common.MachineryError(f'wall-clock timeout in world {w} prefix {prefix}')
        return x

    def on_exec(prefix, x):
        st.executions += 1
        st.transitions += x.sched.points
        obs = x.result[0]
        st.sig((json.dumps(w, sort_keys=True), tuple(sorted((i, c['out'][0], c['t']) for i, c in obs['callers'].items())),
                x.aborted, obs.get('max_runners')))
        st.count('scheduling_choices', len(x.choices))
        if x.aborted:
            st.count('aborted_' + x.aborted)
        for kind, detail in check(x, w):
            st.violation(kind, f'[{w}] ' + detail, {'w': w, 'prefix': list(prefix)})
    try:
        root = run_one((), None)
        if shard == 0:
            on_exec((), root)
        for i, kid in enumerate(tx.children(root.choices, 0, pb, FB[0])):
            if i % nsh == shard:
                tx.explore(run_one, pb, root=kid, on_exec=on_exec, fbound=FB[0], stop=lambda: st.extra.get('violations_total', 0) >= 12)
    except tx.Divergence as e:
        raise common.MachineryError(f'world {w}: {e}')
    finally:
        tx.restore_asyncio_seams(aiu)
    if shard == 0:
        st.sample({'world': w, 'preemption_bound': pb, 'free_switch_bound': fb, 'root_choice_points': len(root.choices)})
    return st


def main(tier):
    t0 = time.time()
    common.use_source()
    items = []
    for w, pb in worlds(tier):
        if tier == 'quick':
            if any(c.get('busy') for c in w['callers']):
                items += [(w, 2, s, 8, 1) for s in range(8)]
            else:
                items.append((w, 1, 0, 1, 1))
        else:       # two passes: more preemptions with few free switches (core worlds), and vice versa
            if pb >= 2 and len(w['callers']) <= 2 and all(c['aw'] == 'coro' for c in w['callers']):
                items += [(w, 2, s, 8, 1) for s in range(8)]
            else:
                items.append((w, 1, 0, 1, 1))
            items.append((w, 1, 0, 1, 2))
    total = Stats()
    for st in common.pmap(run_item, items):
        total.merge(st)
    return common.finish(
        PID, tier, total, t0,
        rule=('worlds: target loop idle / running via loop_in_thread / own / closed; 1..3 caller threads with '
              'ensure_aw or run_aw_threadsafe; coroutine / Future / Task awaitables returning, raising, sleeping '
              '{0, D} on the target; loop_in_thread racing ensure_aw on a fresh loop; owner stopping early; all '
              'schedules with <= PB preemptions and <= FB non-default choices at blocking points ((PB,FB) = (1,1) quick, (2,1) on the busy-awaitable worlds; thorough (2,1) and (1,2)); oracle: identical result/exception object, evaluated on the '
              'target loop, at most one runner per loop, loop_in_thread/stop post-conditions, every caller '
              'completes (deadlock detector)'),
        assumptions=['one aiuti source line / stdlib call is atomic', 'virtual clock',
                     'an awaitable never evaluated because the OWNER stopped the target early is not judged'])


def replay(path):
    from aiuti import asyncio as aiu
    doc = json.load(open(path))['replay']
    tx.install_monitoring(common.SRC)
    tx.save_asyncio_seams(aiu)
    res = []
    for _ in range(2):
        x = run_world(aiu, doc['w'], tuple(doc['prefix']), None)
        bad = check(x, doc['w'])
        res.append([b[0] for b in bad])
    print('callers', x.result[0]['callers'], 'aborted', x.aborted, 'thread errors', x.result[1])
    for b in bad:
        print('PROBLEM', b)
    if res[0] != res[1]:
        print('machinery error: replay not deterministic')
        return 2
    return 1 if bad else 0
