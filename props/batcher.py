"""Shared harness for the AsyncBackgroundBatcher properties (C04, C09, C10, C11, C15).

A *program* is a list of timed events; a *script* fixes what the harness-owned
batch function does per key. `execute()` runs the program against the real
batcher on a fresh virtual loop and returns the complete observation log.
"""
import asyncio

from mc.vt import run_main
from mc.vloop import EPS

BT = 1.0            # batch_timeout used by every batcher program
GRID = (0.0, 0.25, BT - EPS, BT, BT + EPS, 2.5)


class Val:
    """A value yielded by the harness batch function (identity matters)."""
    __slots__ = ('key', 'bid', 'n', 'inst')

    def __init__(self, key, bid, n, inst=0):
        self.key, self.bid, self.n, self.inst = key, bid, n, inst

    def __repr__(self):
        return f'Val({self.key},b{self.bid},#{self.n},i{self.inst})'


class YExc(ValueError):
    """An exception *instance yielded* for a key."""

    def __init__(self, key, bid, n):
        super().__init__(key, bid, n)
        self.key, self.bid, self.n = key, bid, n


class YStop(StopIteration):
    def __init__(self, key, bid, n):
        super().__init__(key, bid, n)
        self.key, self.bid, self.n = key, bid, n


class BatchRaise(RuntimeError):
    def __init__(self, bid):
        super().__init__(bid)
        self.bid = bid


class Obs:
    def __init__(self):
        self.batches = []      # dict(bid, start, end, items[(key,arg)], yields[(key,obj)], raised, running_at_start)
        self.calls = []        # dict(i, t, key, arg, explicit, done_t, out)
        self.events = []       # raw chronological log
        self.maxsize_hist = [] # (t, value) in program order
        self.running = 0
        self.max_running = 0
        self.loop_exc = []


def order_items(items, order):
    items = list(items)
    if order == 'rev':
        items.reverse()
    elif order.startswith('rot'):
        n = int(order[3:]) % max(1, len(items))
        items = items[n:] + items[:n]
    return items


def make_func(obs, world, script, order='fwd', item_dur=0.0, batch_dur=0.0, dur_by_bid=None, inst=0, eager=False):
    """Harness-owned batch function. script: key -> behaviour
    'value' | 'exc' | 'stopiter' | 'omit' | 'raise_before' | 'raise_after' | 'twice' | 'unknown'"""
    counter = [0]

    def begin(batch):
        bid = counter[0] if inst == 0 else (inst, counter[0])
        counter[0] += 1
        items = list(batch)
        obs.running += 1
        obs.max_running = max(obs.max_running, obs.running)
        return bid, items

    if eager:
        # a batch function that starts its work when CALLED (plain callable returning an async iterator)
        def efunc(batch):
            return func(batch, begin(batch))
    else:
        efunc = None

    async def func(batch, started=None):
        bid, items = started if started is not None else begin(batch)
        rec = {'bid': bid, 'start': world.now, 'end': None, 'items': items, 'yields': [],
               'raised': None, 'running_at_start': obs.running, 'fault': False, 'inst': inst,
               'loop': asyncio.get_running_loop()}
        obs.batches.append(rec)
        n = 0
        try:
            d = batch_dur if dur_by_bid is None else dur_by_bid[bid % len(dur_by_bid)]
            if d:
                await asyncio.sleep(d)
            for key, arg in order_items(items, order):
                beh = script.get(key, 'value')
                if item_dur:
                    await asyncio.sleep(item_dur)
                if beh == 'raise_before':
                    rec['raised'] = BatchRaise(bid)
                    raise rec['raised']
                if beh == 'omit':
                    continue
                n += 1
                if beh == 'exc':
                    obj = YExc(key, bid, n)
                elif beh == 'stopiter':
                    obj = StopIteration(key, bid, n)   # exact class: asyncio refuses it
                else:
                    obj = Val(key, bid, n, inst)
                if beh == 'unknown':
                    rec['fault'] = True
                    rec['yields'].append(('?unknown?', obj))
                    yield '?unknown?', obj
                    continue
                rec['yields'].append((key, obj))
                yield key, obj
                if beh == 'twice':
                    n += 1
                    obj2 = Val(key, bid, n, inst)
                    rec['fault'] = True
                    rec['yields'].append((key, obj2))
                    yield key, obj2
                if beh == 'raise_after':
                    rec['raised'] = BatchRaise(bid)
                    raise rec['raised']
        finally:
            obs.running -= 1
            rec['end'] = world.now
    return efunc if eager else func


def execute(aiu, events, cfg, script=None, *, form='class', tie=1, tail=None, fresh=()):
    """Run one batcher program. events: [(gap, op)], op one of
         ('call', arg)            default str(arg) key
         ('callk', arg, key)      explicit key
         ('cancel', i)            cancel the i-th call's task
         ('setmax', n)            mutate max_batch_size (class form only)
       cfg: dict(mbs, mcb, R, order, item_dur, batch_dur)
       fresh: calls issued after everything settled (C09).
    Returns (obs, run)."""
    obs = Obs()
    script = script or {}
    holder = {}

    async def main():
        loop = asyncio.get_running_loop()
        world = loop._world
        def mk(inst):
            return make_func(obs, world, script, cfg.get('order', 'fwd'), cfg.get('item_dur', 0.0),
                             cfg.get('batch_dur', 0.0), cfg.get('dur_by_bid'), inst, cfg.get('eager', False))
        func = mk(0)
        kw = dict(max_batch_size=cfg['mbs'], max_concurrent_batches=cfg['mcb'], batch_timeout=BT,
                  retention_timeout=cfg.get('R', 0.0))
        if form == 'class':
            b = aiu.AsyncBackgroundBatcher(func, **kw)
            holder['batcher'] = b
        elif form == 'func':
            b = aiu.async_background_batcher(func, **kw)
        else:   # decorator with options
            b = aiu.async_background_batcher(**kw)(func)
        obs.maxsize_hist.append((world.now, cfg['mbs']))
        tasks = []
        insts = [b]
        for extra in range(1, cfg.get('ninst', 1)):
            if form == 'class':
                insts.append(aiu.AsyncBackgroundBatcher(mk(extra), **kw))
            else:
                insts.append(aiu.async_background_batcher(mk(extra), **kw))

        async def caller(rec, arg, key):
            b = insts[rec['inst']]
            try:
                if key is None:
                    v = await b(arg)
                else:
                    v = await b(arg, key=key)
                rec['out'] = ('ret', v)
            except asyncio.CancelledError:
                if holder.get('over'):
                    return            # loop shutdown after the program ended: not an outcome
                rec['out'] = ('cancelled',)
            except BaseException as e:    # noqa
                rec['out'] = ('exc', e)
            rec['done_t'] = world.now

        def do_call(arg, key, phase, inst=0):
            rec = {'i': len(obs.calls), 'inst': inst, 't': world.now, 'arg': arg,
                   'key': key if key is not None else str(arg), 'explicit': key is not None,
                   'done_t': None, 'out': None, 'cancel_t': None, 'phase': phase, 'after': None}
            rec['seq'] = holder['seq'] = holder.get('seq', 0) + 1
            obs.calls.append(rec)
            t = loop.create_task(caller(rec, arg, key))

            def _done(t, rec=rec):       # cancelled before its first step: the body never ran
                if t.cancelled() and rec['out'] is None and not holder.get('over'):
                    rec['out'] = ('cancelled',)
                    rec['done_t'] = world.now
            t.add_done_callback(_done)
            tasks.append(t)
            return t

        def do_chain(arg, n):
            recs = []
            for j in range(n):
                rec = {'i': len(obs.calls), 'inst': 0, 't': None, 'arg': arg, 'key': str(arg), 'explicit': False,
                       'done_t': None, 'out': None, 'cancel_t': None, 'phase': 'main',
                       'after': recs[-1]['i'] if recs else None}
                obs.calls.append(rec)
                recs.append(rec)

            async def chain():
                for rec in recs:
                    rec['t'] = world.now
                    rec['seq'] = holder['seq'] = holder.get('seq', 0) + 1
                    try:
                        rec['out'] = ('ret', await b(arg))
                    except asyncio.CancelledError:
                        if holder.get('over'):
                            return
                        rec['out'] = ('cancelled',)
                    except BaseException as e:    # noqa
                        rec['out'] = ('exc', e)
                    rec['done_t'] = world.now
            tasks.append(loop.create_task(chain()))

        for gap, op in events:
            if isinstance(gap, (tuple, list)):      # ('it', k): k loop iterations later, same virtual instant
                for _ in range(gap[1]):
                    await asyncio.sleep(0)
            elif gap:
                await asyncio.sleep(gap)
            if op[0] == 'call':
                do_call(op[1], None, 'main')
            elif op[0] == 'callk':
                do_call(op[1], op[2], 'main')
            elif op[0] == 'calli':
                do_call(op[1], None, 'main', op[2])
            elif op[0] == 'chain':          # one task calling n times back-to-back, no suspension in between
                do_chain(op[1], op[2])
            elif op[0] == 'cancel':
                rec = obs.calls[op[1]]
                if rec['done_t'] is None:
                    rec['cancel_t'] = world.now
                tasks[op[1]].cancel()
            elif op[0] == 'setmax':
                holder['batcher'].max_batch_size = op[1]
                obs.maxsize_hist.append((world.now, op[1]))
        if tasks:
            await asyncio.wait(tasks)
        if tail:
            await asyncio.sleep(tail)
        if fresh:
            n0 = len(tasks)
            for op in fresh:
                do_call(op[1], op[2] if len(op) > 2 else None, 'fresh')
            await asyncio.wait(tasks[n0:])
        lt = holder.get('batcher')
        if lt is not None:
            obs.loop_task_dead = lt._loop_task.done()
        return True

    from mc.vloop import SoloWorld
    world0 = SoloWorld(tie=tie)
    world0.deadlines = []
    run = run_main(main, tie=tie, world=world0, after_main=lambda r: holder.__setitem__('over', True))
    obs.deadlines = sorted(set(world0.deadlines))
    obs.loop_exc = list(run.world.exc_log)
    return obs, run


def describe(obs):
    """Compact, identity-free rendering of an observation log (for signatures)."""
    return (
        tuple((b['bid'], b['start'], b['end'], tuple(k for k, _ in b['items']),
               tuple((k, type(o).__name__) for k, o in b['yields']), b['raised'] is not None)
              for b in obs.batches),
        tuple((c['i'], c['t'], c['key'], c['done_t'],
               (c['out'][0], repr(c['out'][1]) if c['out'] and len(c['out']) > 1 else None) if c['out'] else None)
              for c in obs.calls),
    )


def adaptive_programs(aiu, cfg, script, depth, keys=(0,), form='class', max_branch=16, check=None):
    """DFS over same-key (or few-key) call programs whose arrival instants are NOT taken from a fixed grid
    but placed just before / just after every timer deadline that was armed - by the implementation or by the
    harness batch function - while the prefix ran to quiescence. Yields (events, obs, run)."""
    def to_gaps(abs_events):
        out, t = [], 0.0
        for at, op in abs_events:
            out.append((at - t, op))
            t = at
        return out

    def rec(abs_events):
        ev = to_gaps(abs_events)
        obs, run = execute(aiu, ev, cfg, script, form=form)
        yield ev, obs, run
        if len(abs_events) >= depth or run.hang:
            return
        t_last = abs_events[-1][0]
        cands = {t_last}
        for d in obs.deadlines:
            if d > t_last - 1e-9:
                for t in (d - EPS, d + EPS):
                    if t >= t_last:
                        cands.add(t)
        for t in sorted(cands)[:max_branch]:
            for k in keys:
                yield from rec(abs_events + [(t, ('call', k))])
    for k0 in keys[:1]:
        yield from rec([(0.0, ('call', k0))])
