"""C07, engine B part: foreign thread submit-then-wait_from_anywhere (see props/bufmc.py)."""
from . import bufmc


def run_into(total, tier):
    bufmc.run_into(total, tier, 'C07')


def replay_doc(doc):
    return bufmc.replay_doc(doc, 'C07')
