"""Engine-B worlds and oracles for threadsafe_async_cache (C01, C05, C06).

A world = N threads, each with its own virtual event loop, a life-cycle (how the loop is
run, stopped, shut down or abandoned), M callers of the cached function, a start offset, and
a script for the harness-owned wrapped function (per invocation index). One execution = one
schedule of that world; the monitor replays the scheduler's total order of harness events.
"""
import asyncio
import itertools
from asyncio import runners
from collections.abc import MutableMapping

from mc import tx
from mc.vloop import IdleForever

D = 1.0          # nominal computation duration
_REAL = {'rcts': asyncio.run_coroutine_threadsafe}
SLACK = 5.0      # virtual seconds of idle waiting tolerated without any loop death
KEY = 'K'


class HarnessError(Exception):
    def __init__(self, inv, task):
        super().__init__(inv)
        self.inv, self.task = inv, task


class Res:
    __slots__ = ('inv', 'key')

    def __init__(self, inv, key):
        self.inv, self.key = inv, key

    def __repr__(self):
        return f'Res(inv{self.inv},{self.key})'


class MapCache(MutableMapping):
    def __init__(self):
        self.d = {}

    def __getitem__(self, k):
        return self.d[k]

    def __setitem__(self, k, v):
        self.d[k] = v

    def __delitem__(self, k):
        del self.d[k]

    def __iter__(self):
        return iter(self.d)

    def __len__(self):
        return len(self.d)


def run_world(aiu, w, prefix=(), expect=None, budget=30000):
    """w: dict(threads=[dict(life, m, offset, extra_key, delta, tmo)], script=(...), cache=kind)"""
    sched = tx.Sched(prefix, expect, horizon=400.0, budget=min(budget, 8000))
    from mc import vloop as _vl
    _vl.CANCEL_ORDER['desc'] = bool(w.get('cancel_desc'))
    tx.bind_asyncio_seams(aiu, sched)
    ninv = [0]
    script = w['script']
    cache = {'default': None, 'dict': {}, 'map': MapCache()}[w.get('cache', 'default')]
    if cache is None:
        cachekw = {}
    else:
        cachekw = {'cache': cache}
        if w.get('cache') == 'lru':
            pass

    async def raw(key):
        inv = ninv[0]
        ninv[0] += 1
        task = asyncio.current_task()
        loop = asyncio.get_running_loop()
        beh = script[inv] if inv < len(script) else 'ret0'
        sched.log('inv_begin', inv, key, loop.vname, id(task))
        try:
            if beh in ('yield', 'yield_raise'):
                await asyncio.sleep(0)
            elif beh in ('sleepD', 'sleepD_raise'):
                await asyncio.sleep(D)
            elif beh == 'sleep90':          # longer than the 60 s safety timeout of the waiters
                await asyncio.sleep(90.0)
            if beh.endswith('raise'):
                e = HarnessError(inv, id(task))
                sched.log('inv_raise', inv, key)
                raise e
            r = Res(inv, key)
            sched.log('inv_ret', inv, key, r)
            return r
        except asyncio.CancelledError:
            if not sched.aborted:
                sched.log('inv_cancelled', inv, key)
            raise
    if any(b == 'raise_sync' for b in script):
        # the wrapped callable is a plain function returning an awaitable; it may fail when CALLED
        async_raw = raw

        def raw(key):      # noqa: F811
            inv = ninv[0]
            if inv < len(script) and script[inv] == 'raise_sync':
                ninv[0] += 1
                task = asyncio.current_task()
                sched.log('inv_begin', inv, key, asyncio.get_running_loop().vname, id(task))
                sched.log('inv_raise', inv, key)
                raise HarnessError(inv, id(task))
            return async_raw(key)
    f = aiu.threadsafe_async_cache(raw, **cachekw)

    # observe cross-loop proxy waits (who waits inside which loop), whatever name the library uses
    real_rcts = _REAL['rcts']

    def logged_rcts(coro, loop):
        sched.log('proxy', id(asyncio.current_task()), getattr(loop, 'vname', None))
        return real_rcts(coro, loop)
    aiu.run_coro_ts = logged_rcts
    asyncio.run_coroutine_threadsafe = logged_rcts
    asyncio.tasks.run_coroutine_threadsafe = logged_rcts

    def make_thread(ti, spec):
        lname = f'L{ti}'

        async def caller(ci, key):
            cid = (ti, ci)
            task = asyncio.current_task()
            sched.log('call_begin', cid, key, lname, id(task))
            try:
                v = await f(key)
                out = ('ret', v)
            except asyncio.CancelledError:
                if sched.aborted:
                    raise
                sched.log('call_end', cid, key, ('cancelled',), id(task))
                raise
            except tx.SchedAbort:
                raise                      # the execution is being torn down: not an outcome
            except BaseException as e:   # noqa
                out = ('exc', e)
            sched.log('call_end', cid, key, out, id(task))
            return out

        def callers():
            cs = [caller(ci, KEY) for ci in range(spec['m'])]
            if spec.get('extra_key'):
                cs.append(caller(spec['m'], 'K2'))
            return cs

        life = spec['life']

        def body():
            if spec.get('offset'):
                sched.sleep(spec['offset'])
            factory = lambda: sched.new_loop(lname)   # noqa
            if life == 'L0':
                async def main():
                    await asyncio.gather(*callers(), return_exceptions=True)
                asyncio.run(main(), loop_factory=factory)
            elif life == 'L1':      # main returns while callers may still be pending -> stock shutdown
                async def main():
                    for c in callers():
                        sched.keep.append(asyncio.ensure_future(c))
                    await asyncio.sleep(spec.get('delta', 0.0))
                asyncio.run(main(), loop_factory=factory)
            elif life == 'L2':      # every caller under its own wait_for
                async def main():
                    async def guarded(c):
                        t = asyncio.ensure_future(c)
                        sched.keep.append(t)
                        sched.log('own_timeout_scope', id(t))
                        try:
                            await asyncio.wait_for(t, spec.get('tmo', D / 2))
                        except asyncio.TimeoutError:
                            pass
                    await asyncio.gather(*(guarded(c) for c in callers()), return_exceptions=True)
                asyncio.run(main(), loop_factory=factory)
            elif life == 'L2x':     # first caller under wait_for (it gets cancelled), the others wait freely
                async def main():
                    cs = callers()
                    t0 = asyncio.ensure_future(cs[0])        # created first: it becomes the computing caller
                    sched.keep.append(t0)
                    sched.log('own_timeout_scope', id(t0))

                    async def guarded():
                        try:
                            await asyncio.wait_for(t0, spec.get('tmo', D / 2))
                        except asyncio.TimeoutError:
                            pass
                    await asyncio.gather(guarded(), *cs[1:], return_exceptions=True)
                asyncio.run(main(), loop_factory=factory)
            elif life == 'L3':      # hand-driven loop, then abandoned with the computation pending
                loop = factory()
                try:
                    tasks = [loop.create_task(c) for c in callers()]
                    sched.keep.extend(tasks)         # never finalised by the real collector mid-run
                    loop.run_until_complete(asyncio.wait(tasks, timeout=spec.get('tmo', D / 2)))
                finally:
                    sched.log('abandon', lname)
                    if not spec.get('leave_open'):
                        loop.close()
                    else:
                        sched.keep.append(loop)      # stopped for good but never closed
                if spec.get('collect'):
                    # what garbage collection of the abandoned calls does, made deterministic: the
                    # pending coroutines are closed (GeneratorExit) in this thread, so their
                    # finally-blocks run as ordinary scheduled steps
                    sched.log('collect_begin', lname)
                    for t in tasks:
                        if not t.done():
                            try:
                                t.get_coro().close()
                            except BaseException as e:   # noqa
                                if isinstance(e, tx.SchedAbort):
                                    raise
                                sched.log('collect_error', lname, repr(e))
                    sched.log('collect_end', lname)
            elif life == 'L6':      # hand-driven loop paused (stopped, open) and resumed later
                loop = factory()
                try:
                    tasks = [loop.create_task(c) for c in callers()]
                    sched.keep.extend(tasks)
                    loop.run_until_complete(asyncio.wait(tasks, timeout=spec.get('tmo', D / 2)))
                    sched.log('paused', lname)
                    sched.sleep(spec.get('pause', 2 * D))
                    sched.log('resumed', lname)
                    loop.run_until_complete(asyncio.gather(*tasks, return_exceptions=True))
                finally:
                    loop.close()
            elif life == 'L4':      # stopped from another thread at an instant, then shut down
                loop = factory()
                sched.loops[lname] = loop
                try:
                    ts_ = [loop.create_task(c) for c in callers()]
                    sched.keep.extend(ts_)
                    fut = asyncio.gather(*ts_, return_exceptions=True)
                    try:
                        loop.run_until_complete(fut)
                    except RuntimeError:
                        pass
                    if spec.get('shutdown', True):
                        runners._cancel_all_tasks(loop)
                finally:
                    loop.close()
        return body

    sched.loops = {}
    sched.keep = []
    for ti, spec in enumerate(w['threads']):
        sched.spawn(make_thread(ti, spec), name=f'T{ti}')
        if spec['life'] == 'L4':
            def stopper(ti=ti, spec=spec):
                sched.sleep(spec.get('stop_at', D / 2))
                lp = None
                while lp is None:
                    lp = sched.loops.get(f'L{ti}')
                    if lp is None:
                        sched.spin()
                sched.log('stop_request', f'L{ti}')
                try:
                    lp.call_soon_threadsafe(lp.stop)
                except RuntimeError:
                    pass
            sched.spawn(stopper, name=f'S{ti}')
    try:
        aborted = sched.run()
    finally:
        aiu.run_coro_ts = _REAL['rcts']
        asyncio.run_coroutine_threadsafe = _REAL['rcts']
        asyncio.tasks.run_coroutine_threadsafe = _REAL['rcts']
    x = tx.Execution()
    x.choices, x.aborted, x.trace, x.sched = sched.choices, aborted, sched.trace, sched
    x.leaked = getattr(sched, 'leaked', 0)
    x.result = [(t.name, repr(t.error)) for t in sched.threads if t.error is not None]
    return x


# ------------------------------------------------------------------------------ monitor
class Monitor:
    """Replays the trace and derives everything the three oracles need."""

    def __init__(self, x, w):
        self.x, self.w = x, w
        self.viol = {'C01': [], 'C05': [], 'C06': []}
        self.analyse()

    def analyse(self):
        tr = self.x.trace
        open_inv = {}        # inv -> dict(key, loop, t0)
        retired = set()
        first_ok = {}        # key -> (inv, result)
        dead_loops = {}      # loop name -> time it stopped/closed first
        loop_death_times = []
        callers = {}         # cid -> dict
        inv_host = {}
        inv_task = {}
        own_timeout_tasks = set()
        shutdown_loops = set()      # loops whose run has ended at least once (shutdown cancels are 'own')
        key_open_intervals = {}     # key -> list of [t0, t1]
        inv_end = {}
        failed_invs = {}
        closed_loops = set()
        run_iv = {}          # loop name -> list of [t0, t1] during which it was running
        proxies = {}         # caller task id -> list of (t, target loop)
        death_with_open = set()     # (time, loop) deaths that retired an open invocation
        for ev in tr:
            t, tid, kind = ev[0], ev[1], ev[2]
            if kind == 'loop':
                lname, what = ev[3], ev[4]
                if what == 'run_begin':
                    run_iv.setdefault(lname, []).append([t, None])
                elif what == 'run_end' and run_iv.get(lname) and run_iv[lname][-1][1] is None:
                    run_iv[lname][-1][1] = t
                if what in ('run_end', 'closed', 'closing'):
                    if what != 'run_end':
                        closed_loops.add(lname)
                    if what == 'run_end':
                        shutdown_loops.add(lname)
                    if lname not in dead_loops:
                        dead_loops[lname] = t
                    loop_death_times.append((t, lname, what))
                    for inv, d in open_inv.items():
                        if d['loop'] == lname and inv not in retired:
                            retired.add(inv)
                            d['retired_at'] = t
                            death_with_open.add((t, lname, d['key']))
            elif kind == 'inv_begin':
                inv, key, lname, task = ev[3], ev[4], ev[5], ev[6]
                others = [i for i, d in open_inv.items() if d['key'] == key and i not in retired]
                if others:
                    self.viol['C01'].append(('two_invocations_in_progress',
                                             f'invocation {inv} of key {key} entered on {lname} at t={t} while '
                                             f'invocation(s) {others} (on {[open_inv[i]["loop"] for i in others]}) '
                                             f'still in progress on running loops'))
                if key in first_ok:
                    self.viol['C01'].append(('invoked_after_success',
                                             f'invocation {inv} of key {key} entered at t={t} although invocation '
                                             f'{first_ok[key][0]} had already returned successfully'))
                open_inv[inv] = {'key': key, 'loop': lname, 't0': t, 'task': task}
                inv_host[inv] = lname
                inv_task[inv] = task
            elif kind in ('inv_ret', 'inv_raise', 'inv_cancelled'):
                inv, key = ev[3], ev[4]
                d = open_inv.pop(inv, None)
                if d is not None:
                    end = d.get('retired_at', t)
                    key_open_intervals.setdefault(key, []).append((d['t0'], end, d['loop']))
                inv_end[inv] = (t, kind)
                if kind == 'inv_ret' and key not in first_ok:
                    first_ok[key] = (inv, ev[5])
                if kind == 'inv_raise':
                    failed_invs[inv] = t
            elif kind == 'proxy':
                proxies.setdefault(ev[3], []).append((t, ev[4]))
            elif kind == 'own_timeout_scope':
                own_timeout_tasks.add(ev[3])
            elif kind == 'call_begin':
                cid, key, lname, task = ev[3], ev[4], ev[5], ev[6]
                callers[cid] = {'key': key, 'loop': lname, 't0': t, 't1': None, 'out': None, 'task': task,
                                'cache_done_at_start': key in first_ok}
            elif kind == 'call_end':
                cid, key, out, task = ev[3], ev[4], ev[5], ev[6]
                c = callers[cid]
                if c['loop'] in closed_loops:
                    c['finalised_after_close'] = out     # garbage collection of an abandoned call:
                    continue                              # nobody observes this outcome
                c['t1'], c['out'] = t, out
                c['shutdown_at_end'] = c['loop'] in shutdown_loops
        # invocations still open at the end
        tend = tr[-1][0] if tr else 0.0
        for inv, d in open_inv.items():
            end = d.get('retired_at', tend)
            key_open_intervals.setdefault(d['key'], []).append((d['t0'], end, d['loop']))
        self.callers, self.first_ok, self.dead_loops = callers, first_ok, dead_loops
        self.loop_death_times = loop_death_times
        self.key_open_intervals = key_open_intervals
        self.open_at_end = open_inv
        self.retired = retired
        aborted = self.x.aborted

        # ---- C01 second clause: callers completing normally after the first success get that object
        for cid, c in callers.items():
            if c['out'] and c['out'][0] == 'ret':
                v = c['out'][1]
                ok = first_ok.get(c['key'])
                if ok is None or v is not ok[1]:
                    self.viol['C01'].append(('caller_got_other_result',
                                             f'caller {cid} returned {v!r}; the first successful invocation of '
                                             f'{c["key"]} returned {ok and ok[1]!r}'))

        # ---- C06: every caller ends in one of the three allowed ways
        for cid, c in callers.items():
            out = c['out']
            if out is None:
                continue
            if out[0] == 'ret':
                continue      # identity checked above (C01); value of its key
            if out[0] == 'cancelled':
                own = c['task'] in own_timeout_tasks or c.get('shutdown_at_end')
                if not own:
                    self.viol['C06'].append(('foreign_cancellation',
                                             f'caller {cid} on {c["loop"]} ended with CancelledError at t={c["t1"]} '
                                             f'but nobody cancelled its task (its loop was running normally)'))
                    # C05: 'finishes with a value, an exception or its caller's OWN cancellation'; a caller whose
                    # hosting loop died must recover by recomputing, not end with somebody else's cancellation
                    self.viol['C05'].append(('ended_by_foreign_cancellation_instead_of_recovering',
                                             f'caller {cid} on {c["loop"]} ended with CancelledError at t={c["t1"]} '
                                             f'although nobody cancelled its task; loops that died while it waited: '
                                             f'{c.get("deaths")}'))
            elif out[0] == 'exc':
                e = out[1]
                if isinstance(e, HarnessError):
                    if e.task != c['task']:
                        self.viol['C06'].append(('foreign_exception',
                                                 f'caller {cid} raised {e!r} of invocation {e.inv}, which was '
                                                 f'performed by another caller'))
                else:
                    self.viol['C06'].append(('bookkeeping_exception_leaked',
                                             f'caller {cid} on {c["loop"]} raised {type(e).__name__}: {e} '
                                             f'(not raised by the wrapped function)'))

        # ---- C05: termination + promptness / recovery
        def host_alive(c):
            return c['loop'] not in dead_loops or dead_loops[c['loop']] >= (c['t1'] if c['t1'] is not None else 1e18)
        pending = [cid for cid, c in callers.items() if c['t1'] is None]
        if aborted in ('deadlock', 'budget', 'horizon'):
            blame = [cid for cid in pending if callers[cid]['loop'] not in dead_loops]
            if blame or aborted != 'deadlock':
                self.viol['C06'].append(('caller_left_hanging',
                                         f'execution ended by {aborted} at t={tend}: callers {blame or pending} on live '
                                         f'loops never finish although no invocation of their key is in progress '
                                         f'({ {i: d["loop"] for i, d in open_inv.items()} }): an earlier failure / '
                                         f'cancellation was not cleaned up'))
                self.viol['C05'].append((f'callers_never_finish_{aborted}',
                                         f'execution ended by {aborted} at t={tend} with callers {pending} pending '
                                         f'(on live loops: {blame}); invocations still open: '
                                         f'{ {i: d["loop"] for i, d in open_inv.items()} }'))
        elif aborted is None:
            for cid in pending:
                c = callers[cid]
                if c['loop'] not in dead_loops:
                    self.viol['C05'].append(('caller_never_finished', f'caller {cid} on live loop {c["loop"]}'))
        for cid, c in callers.items():
            if c['t1'] is None:
                continue
            ivs = key_open_intervals.get(c['key'], [])
            # only time during which the caller's own loop was running counts (a paused loop cannot
            # make progress whatever the library does)
            gap = 0.0
            for a, b in run_iv.get(c['loop'], []):
                b = tend if b is None else b
                lo, hi = max(a, c['t0']), min(b, c['t1'])
                if hi > lo:
                    gap += self._gap(lo, hi, ivs)
            # loop deaths during the caller's lifetime of loops that hosted an invocation of its key
            # a loop death excuses up to 60 s of waiting only if it killed an open computation of the key
            # or if this caller's latest cross-loop wait was running inside that loop
            deaths = set()
            for (t, ln, what) in loop_death_times:
                if ln == c['loop'] or not (c['t0'] - 1e-9 <= t <= c['t1'] + 1e-9):
                    continue
                mid = (t, ln, c['key']) in death_with_open
                px_ = [pl for (pt, pl) in proxies.get(c['task'], []) if pt <= t + 1e-9]
                if mid or (px_ and px_[-1] == ln):
                    deaths.add(ln)
            # 'as soon as the computation ends' is judged with slack for an implementation that polls;
            # the defect class this clause is about costs a whole safety window (60 s)
            allowed = 60.0 * len(deaths) + SLACK
            c['gap'], c['deaths'] = gap, len(deaths)
            if gap > allowed + 1e-6:
                self.viol['C06'].append(('bystander_delayed',
                                         f'caller {cid} on {c["loop"]} lived [{c["t0"]}, {c["t1"]}] and idled '
                                         f'{gap} virtual s with no invocation of its key in progress (allowed '
                                         f'{allowed}): delayed beyond a recomputation'))
                self.viol['C05'].append(('caller_stalled',
                                         f'caller {cid} on {c["loop"]} lived [{c["t0"]}, {c["t1"]}] and spent '
                                         f'{gap} virtual s waiting while no invocation of its key was in progress '
                                         f'(allowed {allowed}: {len(deaths)} hosting loop(s) died in that window)'))

    @staticmethod
    def _gap(t0, t1, intervals):
        if t1 <= t0:
            return 0.0
        pts = sorted((max(a, t0), min(b, t1)) for a, b, _ in intervals if b > t0 and a < t1)
        covered, cur = 0.0, t0
        for a, b in pts:
            if b <= cur:
                continue
            a = max(a, cur)
            covered += b - a
            cur = b
        return (t1 - t0) - covered

    def signature(self):
        """Distinct observed history: the total order of harness-visible events (who, what, when)."""
        hist = tuple((round(ev[0], 6), ev[1], ev[2], ev[3] if ev[2] != 'proxy' else ev[4]) for ev in self.x.trace
                     if ev[2] != 'own_timeout_scope')
        cs = tuple(sorted((cid, c['out'][0] if c['out'] else None, c['t1']) for cid, c in self.callers.items()))
        return (hist, cs, self.x.aborted)


# ------------------------------------------------------------------------------ world families
SCRIPTS_1 = ['ret0', 'yield', 'sleepD', 'raise', 'sleepD_raise']


def worlds(tier, prop):
    """Yield (name, world, preemption bound)."""
    out = []

    def add(name, threads, script, cache='default', pb=1, cancel_desc=False):
        out.append((name, {'threads': threads, 'script': tuple(script), 'cache': cache,
                           'cancel_desc': cancel_desc}, pb))
    q = tier == 'quick'
    # --- two threads, one key, all life-cycles for thread A x simple waiter thread B
    lifes_a = [
        ('L0', {}), ('L1', {'delta': 0.0}), ('L1', {'delta': D / 2}), ('L2', {'tmo': D / 2}),
        ('L3', {'tmo': D / 2}), ('L3', {'tmo': D / 2, 'collect': True}), ('L3', {'tmo': D / 2, 'leave_open': True}),
        ('L4', {'stop_at': D / 2, 'shutdown': True}),
        ('L4', {'stop_at': D / 2, 'shutdown': False}),
        ('L4', {'stop_at': 0.0, 'shutdown': True}),          # stop request racing the very first steps
        ('L4', {'stop_at': D, 'shutdown': True}),            # ... and the completion of the computation
    ]
    for la, kw in lifes_a:
        for s0 in ('sleepD', 'yield', 'sleepD_raise') if la != 'L0' else SCRIPTS_1:
            for offb in (0.0, D / 2):
                ta = dict(life=la, m=1, offset=0.0, **kw)
                tb = dict(life='L0', m=1, offset=offb)
                pb = 2 if (s0 == 'sleepD' and offb == 0.0) or not q else 1
                if la == 'L4' and kw.get('stop_at') != D / 2:
                    pb = 1
                add(f'2t/{la}{kw}/{s0}/offb{offb}', [ta, tb], [s0, 'sleepD', 'ret0'], pb=pb)
                if la in ('L1', 'L4') and s0 == 'sleepD':     # shutdown cancels tasks in the other order
                    add(f'2t/{la}{kw}/{s0}/offb{offb}/cancel-desc', [ta, tb], [s0, 'sleepD', 'ret0'], pb=1,
                        cancel_desc=True)
    # --- two callers per loop
    for la, kw in (('L0', {}), ('L1', {'delta': D / 2}), ('L2', {'tmo': D / 2})):
        for s0 in ('sleepD', 'ret0', 'sleepD_raise'):
            add(f'2t2m/{la}/{s0}', [dict(life=la, m=2, offset=0.0, **kw), dict(life='L0', m=2, offset=0.0)],
                [s0, 'yield', 'ret0'], pb=1)
    # --- other caches, second key
    for cache in ('dict', 'map'):
        add(f'2t/cache-{cache}', [dict(life='L0', m=1, offset=0.0, extra_key=True), dict(life='L0', m=1, offset=0.0)],
            ['sleepD', 'ret0'], cache=cache, pb=1)
        add(f'2t/L1/cache-{cache}', [dict(life='L1', m=1, offset=0.0, delta=D / 2), dict(life='L0', m=1, offset=0.0)],
            ['sleepD', 'sleepD', 'ret0'], cache=cache, pb=1)
    # --- three threads: take-over chains (A dies, B takes over, C arrives)
    for la, kw in (('L1', {'delta': D / 2}), ('L3', {'tmo': D / 2}), ('L1', {'delta': 0.0}),
                   ('L3', {'tmo': D / 2, 'collect': True}), ('L3', {'tmo': D / 2, 'leave_open': True})):
        for offc in (0.0, D / 2, D):
            add(f'3t/{la}{kw}/offc{offc}',
                [dict(life=la, m=1, offset=0.0, **kw), dict(life='L0', m=1, offset=0.0),
                 dict(life='L0', m=1, offset=offc)],
                ['sleepD', 'sleepD', 'sleepD', 'ret0'], pb=1 if q else 2)
    # a computation that outlasts the waiters' 60 s safety timeout (waiters must simply wait again)
    for offb in (0.0, 30.0):
        add(f'2t/L0/sleep90/offb{offb}', [dict(life='L0', m=2, offset=0.0), dict(life='L0', m=1, offset=offb)],
            ['sleep90', 'ret0'], pb=1)
    # the computing caller is cancelled by its own timeout while its loop stays alive for a second caller
    for offb in (0.0, D / 2, D):
        add(f'2t/L2x/offb{offb}', [dict(life='L2x', m=2, offset=0.0, tmo=D / 2), dict(life='L0', m=1, offset=offb)],
            ['sleepD', 'sleepD', 'ret0'], pb=1)
    # the wrapped callable fails synchronously, when called
    for la, kw in (('L0', {}), ('L1', {'delta': D / 2})):
        for offb in (0.0, D / 2):
            add(f'2t/{la}/raise_sync/offb{offb}', [dict(life=la, m=2, offset=0.0, **kw), dict(life='L0', m=1, offset=offb)],
                ['raise_sync', 'sleepD', 'ret0'], pb=1)
    if prop in ('C05', 'C06'):      # C01 stipulates that stopped loops are not restarted
        for m in (1, 2):
            for offb in (D, D / 2):
                for s0 in ('sleepD', 'sleepD_raise'):
                    add(f'2t/L6/m{m}/{s0}/offb{offb}',
                        [dict(life='L6', m=m, offset=0.0, tmo=D / 2, pause=2 * D), dict(life='L0', m=1, offset=offb)],
                        [s0, 'sleepD', 'ret0'], pb=1)
    add('3t/L0/zero', [dict(life='L0', m=1, offset=0.0)] * 3, ['ret0', 'ret0', 'ret0'], pb=1 if q else 2)
    add('3t/L0/raise', [dict(life='L0', m=1, offset=0.0)] * 3, ['yield_raise', 'yield', 'ret0'], pb=1 if q else 2)
    if not q:
        for la, kw in (('L1', {'delta': D / 2}), ('L3', {'tmo': D / 2})):
            add(f'4t/{la}', [dict(life=la, m=1, offset=0.0, **kw)] + [dict(life='L0', m=1, offset=o) for o in (0.0, D / 2, D)],
                ['sleepD', 'sleepD', 'sleepD', 'ret0'], pb=1)
        add('2t3m/L0', [dict(life='L0', m=3, offset=0.0), dict(life='L0', m=3, offset=0.0)], ['sleepD', 'ret0'], pb=1)
    return out
