"""C12 - FileLock obeys the Lock/RLock contract and leaves no residue (engine D).

BFS to a FIXPOINT over canonical states of {2 FileLock objects on one path} x {2 virtual
threads}: every operation of the alphabet is applied in every reachable state; the real
implementation runs against the real kernel flock (non-blocking probes), scheduler-owned
in-process locks and a virtual clock, and is compared after every step with a boring reference
model (who holds what, at which depth). Then fault injection: from every reachable state, every
operation is re-run with OSError injected at every env-call index (open / lock / unlock /
close) and every pair of indices, followed by every non-blocking probe.
"""
import itertools
import json
import os
import shutil
import tempfile
import time
from collections import deque

from mc import common
from mc.common import Stats
from mc.flshim import Env, WouldBlockForever, kernel_lock_free, proc_fds_for

PID = 'C12'
TMO = 0.125           # the 'small' timeout
POLL = 0.05           # default poll interval of FileLock.acquire
MAXDEPTH = 3
THREADS = (0, 1)
OBJS = (0, 1)


# --------------------------------------------------------------------------- reference model
class Model:
    """per object: holder thread + depth; per path: which object holds it."""

    def __init__(self, reentrant, default_timeout):
        self.reentrant = reentrant
        self.default = default_timeout
        self.holder = {o: None for o in OBJS}     # object -> thread
        self.depth = {o: 0 for o in OBJS}
        self.ctx = {(t, o): 0 for t in THREADS for o in OBJS}   # open with/acquire_ctx blocks

    def path_holder(self):
        return next((o for o in OBJS if self.holder[o] is not None), None)

    def predict_acquire(self, t, o, blocking, timeout):
        """-> ('ok'|'fail'|'forever', max_elapsed) for acquire(blocking, timeout) semantics."""
        if timeout is None:
            timeout = self.default if blocking else -1
        else:
            blocking = blocking if timeout < 0 else True
        h = self.holder[o]
        if h == t and self.reentrant:
            return 'ok', 0.0
        if h is not None:                         # in-process lock busy (other thread, or self non-reentrant)
            if not blocking:
                return 'fail', 0.0
            return ('forever', None) if timeout < 0 else ('fail', timeout)
        ph = self.path_holder()
        if ph is not None and ph != o:            # another object holds the OS lock
            if not blocking:
                return 'fail', 0.0
            return ('forever', None) if timeout < 0 else ('fail', timeout + POLL)
        return 'ok', 0.0

    def do_acquire(self, t, o):
        if self.holder[o] == t:
            self.depth[o] += 1
        else:
            self.holder[o], self.depth[o] = t, 1

    def do_release(self, t, o, force):
        if self.holder[o] is None:
            return
        self.depth[o] -= 1
        if self.depth[o] == 0 or force:
            self.holder[o], self.depth[o] = None, 0

    def key(self):
        return (tuple(self.holder[o] for o in OBJS), tuple(self.depth[o] for o in OBJS),
                tuple(sorted(self.ctx.items())))


# --------------------------------------------------------------------------- operations
ACQ_FORMS = {
    'acq': ((), {}),                         # acquire(): object default timeout
    'acq_nb': ((False,), {}),
    'acq_t0': ((), {'timeout': 0}),
    'acq_t': ((), {'timeout': TMO}),
    'acq_true_neg': ((True, -1), {}),
    'acq_nb_t': ((False, TMO), {}),          # timeout given overrides blocking=False
}


def op_alphabet():
    ops = []
    for t in THREADS:
        for o in OBJS:
            for f in ACQ_FORMS:
                ops.append((f, t, o))
            ops += [('ctx_enter', t, o), ('ctx_enter_nb', t, o), ('ctx_enter_t', t, o), ('with_enter', t, o),
                    ('ctx_exit', t, o), ('release', t, o), ('release_force', t, o)]
    return ops


def args_of(name):
    if name in ACQ_FORMS:
        return ACQ_FORMS[name]
    return {'ctx_enter': ((), {}), 'ctx_enter_nb': ((False,), {}), 'ctx_enter_t': ((), {'timeout': TMO}),
            'with_enter': ((), {})}[name]


def enabled(model, op):
    """Is the op inside the alphabet in this model state?"""
    name, t, o = op
    if name in ACQ_FORMS or name.endswith('_enter') or name.startswith('ctx_enter'):
        a, kw = args_of(name)
        blocking = a[0] if a else True
        timeout = kw.get('timeout', a[1] if len(a) > 1 else None)
        verdict, _ = model.predict_acquire(t, o, blocking, timeout)
        if verdict == 'forever':
            return False                      # would block forever: outside the alphabet
        if verdict == 'ok' and model.depth[o] >= MAXDEPTH:
            return False                      # nesting cap
        if (name.startswith('ctx') or name == 'with_enter') and model.ctx[(t, o)] >= 2:
            return False
        return True
    if name == 'ctx_exit':
        return model.ctx[(t, o)] > 0 and model.holder[o] in (None, t)
    if name in ('release', 'release_force'):
        return model.holder[o] in (None, t)   # own lock, or an unheld object (must be a no-op)
    return False


# --------------------------------------------------------------------------- world
class World:
    def __init__(self, flmod, path, reentrant, default_timeout):
        self.env = Env()
        self.env.install(flmod)
        self.flmod = flmod
        self.path = path
        self.objs = [flmod.FileLock(path, timeout=default_timeout, reentrant=reentrant) for _ in OBJS]
        self.model = Model(reentrant, default_timeout)
        self.cms = {(t, o): [] for t in THREADS for o in OBJS}

    def close(self):
        self.env.close_leftovers()
        for ob in self.objs:          # neutralise __del__: the descriptors are already closed
            ob._lock_file_fd = None
        self.env.uninstall(self.flmod)

    def snapshot(self):
        out = []
        for ob in self.objs:
            tl = ob._thread_lock
            out.append((ob._lock_counter, ob._lock_file_fd is not None, tl.locked_by, getattr(tl, 'count', None)))
        return tuple(out)

    def apply(self, op, problems):
        """Apply one op to implementation and model; append (kind, detail) problems."""
        name, t, o = op
        env, model, ob = self.env, self.model, self.objs[o]
        env.cur = t
        t0 = env.now
        faults_before = len([c for c in env.calls if not c[1]])
        is_acq = name in ACQ_FORMS or name.startswith('ctx_enter') or name == 'with_enter'
        if is_acq:
            a, kw = args_of(name)
            blocking = a[0] if a else True
            timeout = kw.get('timeout', a[1] if len(a) > 1 else None)
            verdict, max_el = model.predict_acquire(t, o, blocking, timeout)
            try:
                if name in ACQ_FORMS:
                    got = 'ok' if ob.acquire(*a, **kw) is True else 'fail'
                elif name == 'with_enter':
                    r = ob.__enter__()
                    got = 'ok'
                    if r is not ob:
                        problems.append(('with_returns_wrong_object', repr(r)))
                else:
                    cm = ob.acquire_ctx(*a, **kw)
                    cm.__enter__()
                    got = 'ok'
                    self.cms[(t, o)].append(cm)
            except TimeoutError:
                got = 'fail' if not name in ACQ_FORMS else 'raised TimeoutError'
            except WouldBlockForever as e:
                got = f'blocks forever ({e})'
            except OSError as e:
                got = 'oserror'
            faulted = len([c for c in env.calls if not c[1]]) > faults_before
            elapsed = env.now - t0
            if got == 'ok':
                if name == 'with_enter':
                    self.cms[(t, o)].append('with')
                if name.startswith('ctx') or name == 'with_enter':
                    model.ctx[(t, o)] += 1
            if not faulted:
                if got != verdict:
                    problems.append(('acquire_result_wrong',
                                     f'{name} by thread {t} on object {o}: implementation says {got}, the '
                                     f'contract says {verdict} (holders {model.holder}, depths {model.depth})'))
                if max_el is not None and elapsed > max_el + 1e-9:
                    problems.append(('acquire_too_slow', f'{name}: took {elapsed} virtual s, bound {max_el}'))
            else:
                if got not in ('ok', 'fail', 'oserror'):
                    problems.append(('acquire_result_wrong', f'{name} under injected fault: {got}'))
                if got == 'ok' and verdict != 'ok':
                    problems.append(('acquire_result_wrong', f'{name} succeeded under fault although contract '
                                                             f'says {verdict}'))
                nonblocking = (not blocking and timeout is None) or False
                if nonblocking and elapsed > 1e-9:
                    problems.append(('acquire_too_slow', f'non-blocking {name} took {elapsed}'))
            if got == 'ok':
                model.do_acquire(t, o)
        elif name == 'ctx_exit':
            cm = self.cms[(t, o)].pop()
            model.ctx[(t, o)] -= 1
            try:
                if cm == 'with':
                    ob.__exit__(None, None, None)
                else:
                    cm.__exit__(None, None, None)
            except BaseException as e:   # noqa
                problems.append(('release_raised', f'{name}: {e!r}'))
            model.do_release(t, o, False)
        else:
            force = name == 'release_force'
            try:
                r = ob.release(force=True) if force else ob.release()
                if r is not None:
                    problems.append(('release_returns_value', repr(r)))
            except BaseException as e:   # noqa
                problems.append(('release_raised', f'{name}: {e!r}'))
            model.do_release(t, o, force)
        if not problems:
            self.invariants(op, problems)

    def invariants(self, op, problems):
        model, env = self.model, self.env
        for o, ob in enumerate(self.objs):
            held = model.holder[o] is not None
            if ob.is_locked != held:
                problems.append(('is_locked_wrong', f'after {op}: object {o} is_locked={ob.is_locked}, contract '
                                                    f'says held={held} (holder {model.holder[o]})'))
            if ob._lock_counter != model.depth[o]:
                problems.append(('nesting_counter_residue', f'after {op}: object {o} counter={ob._lock_counter}, '
                                                            f'contract depth={model.depth[o]}'))
            tl = ob._thread_lock
            if (tl.locked_by is not None) != held:
                problems.append(('internal_lock_residue',
                                 f'after {op}: object {o} in-process lock owner={tl.locked_by} '
                                 f'depth={getattr(tl, "count", None)} but contract says held={held}'))
            elif held and hasattr(tl, 'count') and tl.count != model.depth[o]:
                problems.append(('internal_lock_residue',
                                 f'after {op}: object {o} RLock depth {tl.count} != contract depth {model.depth[o]}'))
        nheld = sum(1 for o in OBJS if model.holder[o] is not None)
        if len(env.open_fds) != nheld:
            problems.append(('descriptor_leak', f'after {op}: {len(env.open_fds)} descriptors open for '
                                                f'{nheld} held objects'))
        if nheld > 1:
            problems.append(('two_holders', f'after {op}: {model.holder}'))
        free = kernel_lock_free(self.path)
        if free != (nheld == 0):
            problems.append(('kernel_lock_state_wrong', f'after {op}: kernel lock free={free} but contract says '
                                                        f'{nheld} holder(s)'))


def build(flmod, path, cfg, hist, faults=None, fault_from=None):
    """Replay a history on a fresh world. faults: env-call indices (counted from the start of
    the op with index fault_from) at which OSError is injected."""
    try:
        os.unlink(path)          # pristine lock file for every replayed history
    except FileNotFoundError:
        pass
    w = World(flmod, path, *cfg)
    problems = []
    for i, op in enumerate(hist):
        if faults is not None and i == fault_from:
            w.env.fault_at = {w.env.ncalls + f for f in faults}
        before = len(problems)
        w.apply(op, problems)
        if len(problems) > before:
            break
    return w, problems


def explore_cfg(flmod, path, cfg, st, tier):
    ops = op_alphabet()
    seen = {}
    frontier = deque([()])
    w, probs = build(flmod, path, cfg, ())
    seen[(w.model.key(), w.snapshot())] = ()
    w.close()
    diameter = ntrans = fault_runs = 0
    probe_ops = [p for p in ops if p[0] in ('acq_nb', 'release', 'release_force')]
    while frontier:
        hist = frontier.popleft()
        w0, _ = build(flmod, path, cfg, hist)
        model0 = w0.model
        en = [op for op in ops if enabled(model0, op)]
        ncalls0 = w0.env.ncalls
        no_ctx = not any(model0.ctx.values())
        w0.close()
        for op in en:
            h2 = hist + (op,)
            w, probs = build(flmod, path, cfg, h2)
            st.executions += 1
            st.transitions += 1
            ntrans += 1
            if probs:
                for kind, detail in probs:
                    st.violation(kind, detail, {'cfg': cfg, 'hist': h2})
                w.close()
                continue
            k = (w.model.key(), w.snapshot())
            nproc = proc_fds_for(path)
            if nproc != len(w.env.open_fds):
                st.violation('descriptor_leak', f'/proc/self/fd shows {nproc} descriptors on the lock file, shim '
                                                f'accounting {len(w.env.open_fds)}', {'cfg': cfg, 'hist': h2})
            ncalls_op = w.env.ncalls - ncalls0
            w.close()
            if k not in seen:
                seen[k] = h2
                diameter = max(diameter, len(h2))
                frontier.append(h2)
            # ---- fault injection on this transition (from states without open context blocks; the
            #      context-manager forms are thin wrappers and are fault-injected as operations)
            if not no_ctx or ncalls_op == 0:
                continue
            idxs = list(range(ncalls_op + 2))      # retries make further env calls
            fsets = [(i,) for i in idxs]
            if tier != 'quick' or len(hist) <= 2:
                fsets += list(itertools.combinations(idxs, 2))
            for fs in fsets:
                wf, probs = build(flmod, path, cfg, h2, faults=fs, fault_from=len(hist))
                fired = sum(1 for c in wf.env.calls if not c[1])
                st.executions += 1
                fault_runs += 1
                if not fired:
                    wf.close()
                    continue
                st.count('fault_runs_where_a_fault_fired')
                st.sig(('fault', cfg, k, op, fs, wf.snapshot(), tuple(wf.env.calls[-6:])))
                for kind, detail in probs:
                    st.violation(kind, detail + f' [OSError injected at env calls {fs} of the last op]',
                                 {'cfg': cfg, 'hist': h2, 'faults': fs, 'fault_from': len(hist)})
                model_f = wf.model
                followups = [] if probs else [p for p in probe_ops if enabled(model_f, p)]
                wf.close()
                for p in followups:
                    wp, probs2 = build(flmod, path, cfg, h2 + (p,), faults=fs, fault_from=len(hist))
                    st.executions += 1
                    for kind, detail in probs2:
                        st.violation(kind, detail + f' [after OSError injected at env calls {fs} of {op}]',
                                     {'cfg': cfg, 'hist': h2 + (p,), 'faults': fs, 'fault_from': len(hist)})
                    wp.close()
    for k in seen:
        st.sig(('canon', cfg, k))
    return len(seen), ntrans, diameter, fault_runs


def run_case(cfg):
    import aiuti.filelock as flmod
    st = Stats()
    d = tempfile.mkdtemp(prefix='verif-c12-')
    path = os.path.join(d, 'file.lock')
    try:
        tier = cfg[2]
        nstates, ntrans, diam, fr = explore_cfg(flmod, path, cfg[:2], st, tier)
    finally:
        shutil.rmtree(d, ignore_errors=True)
    st.count('canonical_states', nstates)
    st.count('max_diameter', diam)
    st.count('fault_injection_runs', fr)
    st.sample({'config': {'reentrant': cfg[0], 'default_timeout': cfg[1]}, 'canonical_states': nstates,
               'transitions': ntrans, 'diameter': diam, 'fixpoint_reached': True,
               'example_op': ('acq_t', 1, 0)})
    return st


def main(tier):
    t0 = time.time()
    common.use_source()
    cfgs = [(r, dt, tier) for r in (False, True) for dt in (-1, 0, TMO)]
    total = Stats()
    for st in common.pmap(run_case, cfgs):
        total.merge(st)
    return common.finish(
        PID, tier, total, t0,
        rule=('BFS to a fixpoint over canonical (model state, implementation snapshot) pairs for 2 FileLock '
              'objects x 2 virtual threads on one path, 6 configurations (reentrant x default timeout), '
              f'alphabet of {len(op_alphabet())} operations (acquire forms, acquire_ctx/with enter+exit, '
              'release, forced release; nesting <= 3), real kernel flock probed after every step; every '
              'transition re-run with OSError injected at each env-call index and each pair, followed by '
              'all non-blocking probes'),
        assumptions=['releasing a lock held by another thread is outside the contract and not in the alphabet',
                     'operations that would block forever are outside the alphabet',
                     'close() faults are injected after the descriptor is really closed (Linux semantics)',
                     'two virtual threads in one real thread: in-process lock ownership is virtual'],
        extra_cov={'exhaustive': True})


def replay(path):
    import aiuti.filelock as flmod
    doc = json.load(open(path))['replay']
    d = tempfile.mkdtemp(prefix='verif-c12-')
    p = os.path.join(d, 'file.lock')
    try:
        hist = [tuple(o) for o in doc['hist']]
        w, probs = build(flmod, p, tuple(doc['cfg']), hist, faults=doc.get('faults'),
                         fault_from=doc.get('fault_from', len(hist) - 1) if doc.get('faults') else None)
        print('history', hist, 'env calls', w.env.calls)
        for x in probs:
            print('PROBLEM', x)
        w.close()
    finally:
        shutil.rmtree(d, ignore_errors=True)
    return 1 if probs else 0
