#!/venv/bin/python
"""Regenerate MANIFEST.json from the table below (keeps it schema-valid)."""
import json, os
HERE = os.path.dirname(os.path.dirname(os.path.abspath(__file__)))
ALL = [f'C{i:02d}' for i in range(1, 21)]

# id -> (engine, technique, level text, level note, design ref)
CHECKS = {
 'C04': ('vt', 'bounded-exhaustive enumeration of timed call programs x batch-function scripts on the real batcher under a virtual-time event loop',
         'Every program of up to 4 (thorough 5) calls over repeating keys, gaps straddling batch_timeout, plus adaptive same-key programs whose arrivals are placed around every timer deadline armed while the prefix ran, configs, per-key batch-function behaviours (value / Exception / StopIteration / omitted / raise / duplicate / unknown key), result orders and durations is executed on the real AsyncBackgroundBatcher (class and function form, one and two instances); each caller outcome is matched by identity against what the harness batch function yielded for its key; a pending caller at loop quiescence is a hang.',
         'CPython 3.12 asyncio; virtual clock; <= 2 deviating keys per script; subclass instances of StopIteration are outside the alphabet (CPython returns their .value).', '3/C04'),
 'C01': ('tx', 'stateless model checking of the implementation: exhaustive thread-interleaving exploration with iterative preemption bounding (line-granular) under a controlled scheduler and virtual clock',
         'Worlds of 2..3 (thorough 4) threads, each running its own virtual event loop through one of five life-cycles (asyncio.run; main returns early -> stock shutdown cancelling leftovers, in both task orders; per-caller wait_for; hand-driven loop abandoned with the computation pending - closed, left open, or with the abandoned coroutines finalised; loop stopped from another thread; for C05/C06 also a loop paused and resumed), 1..2 (thorough 3) callers per loop, function scripts (return without suspending / suspend / sleep / raise), default dict and MutableMapping caches; EVERY schedule with at most PB preemptions (PB 1-2 quick, 2-3 thorough; choice points at every source line of aiuti code, every lock/executor/queue/loop-select operation and loop stop/close) is executed on the real code under a cooperative scheduler with a virtual clock; a monitor replays the total order of harness events. ' + 'Oracle: never two open invocations of a key on running loops; nothing invoked after the first success; normal returns carry that result.',
         'one aiuti source line / one stdlib call is atomic; preemption bound as reported; loops not restarted; lru.LRU cache not used in the threaded worlds.', '3/C01'),
 'C02': ('tx', 'stateless model checking of the implementation: exhaustive thread-interleaving exploration with iterative preemption bounding against the real kernel flock; process-level exploration in C13',
         '704 (thorough ~2.7k) worlds of 2..3 (thorough 4) threads x 2 FileLock objects on one path x 1..2 rounds over all acquire forms (acquire(), non-blocking, timed, acquire_ctx variants, with; finite default timeouts), section lengths {0, D}, reentrant nesting; every schedule with <= 1-2 preemptions (line-granular in aiuti/filelock.py + every lock/flock/open/close/sleep operation; real kernel flock, scheduler-owned in-process locks, virtual clock); second-thread arrival offsets at the instant the first leaves; oracle: whoever reported success is the only one until it calls release, sections never overlap, failures never enter, a holder inside its section finds the kernel lock busy (independent flock probe), nothing left held (descriptors, in-process locks). Cross-process exclusion is explored by the C13 harness (real processes, no kill).',
         'one source line atomic; in-process locks are shims with threading.Lock/RLock semantics; free-running 16-process contention is sampling and not claimed.', '3/C02'),
 'C03': ('vt', 'bounded-exhaustive enumeration of timed submission programs x failure scripts on the real buffer under a virtual-time event loop (engine A); thread-interleaving exploration for foreign submitters (engine B)',
         'Every program of up to 4 (thorough 5) submissions/waits over {plain, await_, map(list), map(iterator), amap} with producer delays and failure positions, gaps straddling the timeout, x failure scripts of the wrapped function x durations; plus "creep" variants (an arrival just before the deadline is only k loop iterations before it) and, with engine B, 1..2 foreign submitting threads under all schedules with <= 1-2 preemptions; oracle on the invocation log: nothing lost, nothing invented, loop-thread arguments in exactly one successful call.',
         'virtual clock; <= 2 complex producers per program; engine A runs helper threads to completion at submit.', '3/C03'),
 'C05': ('tx', 'stateless model checking of the implementation: exhaustive thread-interleaving exploration with iterative preemption bounding, deadlock / livelock (step budget) / horizon detection, exact virtual time',
         'Worlds of 2..3 (thorough 4) threads, each running its own virtual event loop through one of five life-cycles (asyncio.run; main returns early -> stock shutdown cancelling leftovers, in both task orders; per-caller wait_for; hand-driven loop abandoned with the computation pending - closed, left open, or with the abandoned coroutines finalised; loop stopped from another thread; for C05/C06 also a loop paused and resumed), 1..2 (thorough 3) callers per loop, function scripts (return without suspending / suspend / sleep / raise), default dict and MutableMapping caches; EVERY schedule with at most PB preemptions (PB 1-2 quick, 2-3 thorough; choice points at every source line of aiuti code, every lock/executor/queue/loop-select operation and loop stop/close) is executed on the real code under a cooperative scheduler with a virtual clock; a monitor replays the total order of harness events. ' + 'Oracle: every caller on a live loop finishes (deadlock, step budget and horizon are violations); virtual time a caller spends while no invocation of its key is open must be 0, or at most 60 s per hosting loop that died during its lifetime.',
         'as C01; fairness = every enabled thread is eventually run by the default policy and spin loops are scheduler-visible.', '3/C05'),
 'C06': ('tx', 'stateless model checking of the implementation: exhaustive thread-interleaving exploration with iterative preemption bounding; per-caller outcome classification by identity',
         'Worlds of 2..3 (thorough 4) threads, each running its own virtual event loop through one of five life-cycles (asyncio.run; main returns early -> stock shutdown cancelling leftovers, in both task orders; per-caller wait_for; hand-driven loop abandoned with the computation pending - closed, left open, or with the abandoned coroutines finalised; loop stopped from another thread; for C05/C06 also a loop paused and resumed), 1..2 (thorough 3) callers per loop, function scripts (return without suspending / suspend / sleep / raise), default dict and MutableMapping caches; EVERY schedule with at most PB preemptions (PB 1-2 quick, 2-3 thorough; choice points at every source line of aiuti code, every lock/executor/queue/loop-select operation and loop stop/close) is executed on the real code under a cooperative scheduler with a virtual clock; a monitor replays the total order of harness events. ' + 'Oracle: each caller ends with the value, with an exception instance raised by an invocation its own task performed, or with a cancellation of its own task (own wait_for / own loop shutting down); anything else (bookkeeping KeyError, foreign CancelledError, RuntimeError of a closed loop) is a violation.',
         'as C01.', '3/C06'),
 'C07': ('vt', 'bounded-exhaustive enumeration of timed programs with wait() calls and shutdown instants on the real buffer under a virtual-time event loop',
         'The C03 program space with the barrier oracle evaluated at the instant each wait() returns (several concurrent waiters, cancel=True/False); shutdown sweep: main() returns at every grid instant so that the stock asyncio _cancel_all_tasks meets the buffer idle / collecting / timer armed / function running and must terminate; direct cancellation of the background task.',
         'virtual clock; a loop with nothing ready and no timer during shutdown = shutdown hangs.', '3/C07'),
 'C08': ('vt', 'bounded-exhaustive enumeration of arrival-time sequences on the real buffer under a virtual-time event loop',
         'All arrival sequences of up to 5 (thorough 6) immediately-available submissions with gaps from {0,T/4,T-e,T,T+e,2.5T}, T in {1/4,1,3}, function durations {0,T/4,2T}, failure scripts with <= 2 failures; invocation log checked for overlap, emptiness, no call < T after a preceding submission, idle bursts flushed together exactly at last+T.',
         'virtual clock; ties within e/2 of a timer not judged for timing.', '3/C08'),
 'C09': ('vt', 'bounded-exhaustive enumeration of call/cancel event sequences on the real batcher under a virtual-time event loop',
         'Every sequence of 2..3 (thorough 4) calls over repeating keys with 1..2 cancel events at every position, gaps x per-item durations covering queued / running-before-result / after-result, x configs, retention 0 and >0, result order, value/exception scripts, followed by fresh calls; every never-cancelled caller is matched by identity against the batch function yield for its key; pending callers at quiescence are hangs.',
         'virtual clock; the cancelled caller itself is unconstrained.', '3/C09'),
 'C11': ('vt', 'bounded-exhaustive enumeration of timed same-key call sequences on the real batcher under a virtual-time event loop',
         'Every timed sequence of up to 4 (thorough 5) calls over repeating keys with gaps on a grid around batch_timeout, retention_timeout and the answer instant, adaptive programs with arrivals around every armed timer deadline (incl. streaming batch functions), retention in {0, 0.5, 4}; plus chained callers (a task re-requesting its key right after being answered); calls are classified sharer/origin from exact virtual arrival vs answer times (and causality for chained calls) and checked by object identity / batch id; no batch may carry a key twice; batch items must equal distinct computations.',
         'virtual clock; exact ties with the eviction instant are not judged; nobody cancelled.', '3/C11'),
 'C10': ('vt', 'bounded-exhaustive enumeration of arrival-time sequences (with max_batch_size mutation events) on the real batcher under a virtual-time event loop',
         'All arrival sequences of up to 5 (thorough 7) calls on a gap grid straddling batch_timeout, with one max_batch_size mutation at any position, x size/concurrency/duration configs; the batch log of the harness batch function is checked for size limit, concurrency limit, FIFO, sharing-until-full and dispatch deadline (exact in virtual time, ties not judged).',
         'virtual clock; distinct keys; ties between arrivals and timers abstain on timing clauses only.', '3/C10'),
 'C12': ('sq', 'explicit-state BFS to a fixpoint over operation sequences on the real FileLock against a reference model, with exhaustive single/double OSError injection per transition',
         'BFS to a fixpoint (about 4.4k canonical states, 157k transitions) over 2 FileLock objects x 2 virtual threads on one path for 6 configurations, 52-operation alphabet (all acquire forms, acquire_ctx/with enter+exit, release, forced release, nesting <= 3); after every step return value, is_locked, nesting counter, in-process lock state, descriptor accounting (+/proc/self/fd) and the real kernel flock state are compared with a reference model; every env-call-making transition from context-free states is re-run with OSError injected at each env-call index (and pairs), followed by all non-blocking probes.',
         'virtual threads in one real thread (in-process lock ownership is virtual); ops that would block forever and cross-thread release are outside the alphabet; longer random sequences (sampling) are not claimed.', '3/C12'),
 'C13': ('px', 'process-level model checking of the implementation: forked real processes stepped by a controller over pipes, SIGKILL as a scheduler action at every point of the victim, bounded interleavings of the survivors',
         'Victim scenarios {blocking, timed vs busy lock, reentrant nested, with, acquire_ctx, lock object pre-used by the parent before fork} x SIGKILL at EVERY report index of the victim (each executed source line of aiuti/filelock.py and each flock/sleep operation, 60-180 points per scenario) x contender sets {none, blocking, timed, two blocking} started before/after the victim x schedules with <= 0-1 preemptions; plus kill-free 2..3 process worlds. Real kernel flock across real processes. Oracle: sections of live processes never overlap, no live process parked with nobody able to move, blocking survivors acquire, a fresh process acquires non-blockingly afterwards.',
         'Linux flock on a local filesystem; children single-threaded; virtual time for timeouts/polls; kill granularity = source line / shim operation.', '3/C13'),
 'C14': ('vt', 'bounded-exhaustive enumeration of call signatures and cache-operation sequences on the real decorator under a virtual-time event loop',
         'Every call signature (<= 2, thorough 3 positionals over a 9-value domain incl. equal-across-type and (name,value) tuples; keyword dicts over <= 3 names in every insertion order) called on one wrapped function forward / reverse / shuffled / concurrently (covers all ordered pairs) for default, dict and logging-mapping caches; every sequence of <= 4 (thorough 5) ops over {call, evict, clear} x 4 colliding signatures, incl. entries that expire after k reads of the mapping (mid-call eviction), and every call sequence on lru.LRU(1..3): invoked iff absent from the caller mapping, values tagged with the arguments that produced them, never an exception from the cache.',
         'single loop (cross-thread behaviour is C01); reference key relation is Python ==/hash.', '3/C14'),
 'C15': ('vt', 'bounded-exhaustive enumeration of probe programs per decorator option, differential between the options-decorator form and the direct forms, under a virtual-time event loop',
         'For every option of the three decorators (singly and jointly) all probe programs of <= 3 calls over a gap grid are run on @deco(opt=v), deco(func, opt=v) and the class; full virtual-time logs must be identical and must differ from the default configuration (sensitivity check, else the check fails as vacuous); the retention probes are repeated with a garbage collection in every idle gap; a decorated batcher is driven from 1..3 successive loops (closed / kept open), from 2..3 live loops in alternation, and from 2..3 loops running concurrently in threads (engine B, preemption bound 1-2).',
         'virtual clock; loops used one after another here (concurrent loops: engine B).', '3/C15'),
 'C16': ('tx', 'stateless model checking of the implementation: exhaustive thread-interleaving exploration (producer thread vs consuming loop/thread) with iterative preemption bounding',
         'All sources of length 0..4 (thorough 6) over falsy/duplicate values as list / range / generator / iterator (to_async_iter) and async generator (to_sync_iter, loop=None and a given loop), failure at every position or none, producer step durations and consumer pauses {0, D}; every interleaving with <= 2-3 (thorough 3-4) preemptions of the producer thread lines with the consumer; oracle: sequence == source prefix then StopIteration or the same exception instance, a ticker task keeps ticking while the producer sleeps, no helper thread alive at the end.',
         'one aiuti source line / stdlib call atomic, with explicit scheduling points where the pool worker returns and resolves its future.', '3/C16'),
 'C17': ('tx', 'stateless model checking of the implementation: exhaustive thread-interleaving exploration with bounded preemptions and bounded non-default switches at blocking points; deadlock detector',
         'Worlds: target loop idle / running via loop_in_thread / own / closed; 1..3 caller threads doing ensure_aw or run_aw_threadsafe with coroutine / Future / Task awaitables that return, raise, sleep {0, D} on the target; loop_in_thread racing ensure_aw on a fresh loop; owner stopping early; every schedule with (preemptions, non-default choices at blocking points) <= (1,1) quick; thorough (2,1) and (1,2); oracle: identical result/exception object, evaluated on the target loop, never two runners of one loop, loop_in_thread/stop post-conditions, every caller completes (deadlock detector).',
         '5-7 controlled threads per world make unbounded free switches infeasible: the second bound is reported; awaitables stranded because the OWNER stopped the loop are not judged.', '3/C17'),
 'C18': ('sq', 'exhaustive DFS over all pull interleavings of the two result iterators against a list-comprehension reference',
         'All sources of length 0..4 (thorough 6) over a 3-value domain as list / one-shot iterator x all truth-table callables, stateful callables, boolean lists/iterators shorter/equal/longer x EVERY interleaving of next() on the two results; each prefix compared with the reference partition, predicate call log and source pull count; exhaust() too.',
         'sequential code; stateless search re-builds fresh objects per path.', '3/C18'),
 'C19': ('sq', 'grammar-bounded exhaustive enumeration of inputs, executed as chained call histories, against an independent reference',
         'All item lists of length 0..3 (thorough 4) over literal / non-literal fragment grammars x 3 input shapes x separators of length 1..2 x parse_keys x raising custom parsers, compared (types included) with an independent reference (own split, ast whitelist walker); calls are chained in one process and returned containers mutated, so state kept between calls shows; tripwire object + import counter detect any evaluation.',
         'reference decoder independent of ast.literal_eval; signed numbers are literals, nested unary minus is not.', '3/C19'),
 'C20': ('vt', 'bounded-exhaustive enumeration of timed programs on the real code under a virtual-time event loop',
         'All lists of 0..4 (thorough 5) awaitables x outcomes x every weak ordering of finishing times x `only` are run through the real gather_excs/raise_first_exc on a virtual loop and compared with a list-comprehension reference; exhaustive within these bounds.',
         'CPython 3.12 asyncio semantics; virtual clock instead of real time; bounds as stated.', '3/C20'),
}
PENDING = 'check not built yet - the property is in scope of the technique (see DESIGN.md section 3); this entry is removed when its check lands'

def main():
    checks = []
    for pid in ALL:
        if pid not in CHECKS:
            continue
        eng, tech, text, note, ref = CHECKS[pid]
        checks.append({
            'property_id': pid,
            'quick_cmd': f'./check {pid} --tier quick',
            'thorough_cmd': f'./check {pid} --tier thorough',
            'evidence_file': f'/verif/evidence/{pid}.json',
            'replay_cmd_template': f'./check {pid} --replay {{path}}',
            'engine': eng,
            'level_claimed': {'category': 'model_checking', 'text': text, 'design_ref': f'DESIGN.md section {ref}'},
            'level_note': note,
            'technique': tech,
        })
    doc = {
        'version': 1,
        'setup_cmd': '/venv/bin/python -c "import sys; sys.path.insert(0, \'/verif\'); import mc.common, mc.vloop, mc.vt; print(\'ok\')"',
        'hooks': {
            'guard': 'AIUTI_VERIF',
            'enable': 'no source hooks: every seam is a module global of aiuti.asyncio / aiuti.filelock rebound by the harness at run time (DESIGN.md 2.2); checks import the working tree of /repo directly',
            'baseline_off_cmd': 'cd /repo && /venv/bin/python -m pytest -ra -q -p no:cacheprovider --timeout=900 --continue-on-collection-errors',
            'source_commits': [],
            'add_only': True,
        },
        'engines': [
            {'name': 'vt', 'path': 'mc/vt.py', 'serves_properties': [p for p in ALL if p in CHECKS and CHECKS[p][0] == 'vt'],
             'kind_free_text': 'virtual-time event loop; bounded-exhaustive enumeration / BFS of timed programs on the real code'},
            {'name': 'tx', 'path': 'mc/tx.py', 'serves_properties': [p for p in ALL if p in CHECKS and CHECKS[p][0] == 'tx'],
             'kind_free_text': 'stateless thread-interleaving explorer (line-granular, iterative preemption bounding) on the real code'},
            {'name': 'sq', 'path': 'props/c12.py', 'serves_properties': [p for p in ALL if p in CHECKS and CHECKS[p][0] == 'sq'],
             'kind_free_text': 'sequential engine: operation-sequence BFS to a fixpoint against a reference model with fault injection (props/c12.py + mc/flshim.py); exhaustive pull-interleaving DFS (props/c18.py); grammar-bounded chained histories (props/c19.py)'},
            {'name': 'px', 'path': 'mc/px.py', 'serves_properties': [p for p in ALL if p in CHECKS and CHECKS[p][0] == 'px'],
             'kind_free_text': 'process-level explorer: forked children stepped over pipes, SIGKILL as scheduler action'},
        ],
        'checks': checks,
        'not_applicable': [{'property_id': p, 'reason': PENDING} for p in ALL if p not in CHECKS],
        'notes': 'All checks explore the real implementation exhaustively within stated bounds; see DESIGN.md.',
    }
    with open(os.path.join(HERE, 'MANIFEST.json'), 'w') as f:
        json.dump(doc, f, indent=1)
        f.write('\n')

if __name__ == '__main__':
    main()
