#!/bin/bash
# usage: run_seed.sh <seed-name> <prop> [tier]   - apply seeded patch on a scratch worktree of /repo HEAD, run check
S=$1; P=$2; T=${3:-quick}
D=/tmp/seedrun/$S.$$
mkdir -p /tmp/seedrun
git -C /repo worktree add -q --detach $D HEAD || exit 2
cd $D && git apply -3 /verif/seeded/$S/patch.diff 2>/tmp/seedrun/$S.applylog || { echo "PATCH DOES NOT APPLY: $S"; cat /tmp/seedrun/$S.applylog; git -C /repo worktree remove --force $D; exit 2; }
cd /verif && ./check $P --tier $T --src $D > /tmp/seedrun/$S.$P.out 2>&1; RC=$?
echo "seed=$S prop=$P tier=$T rc=$RC $(grep -c '^VIOLATION' /tmp/seedrun/$S.$P.out) violation lines; $(grep -m1 'kind=' /tmp/seedrun/$S.$P.out | cut -c1-300)"
git -C /repo worktree remove --force $D
exit $RC
