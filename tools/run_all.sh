#!/bin/bash
# usage: run_all.sh [tier] [ids...]  - runs checks sequentially, prints rc and wall time
T=${1:-quick}; shift
IDS=${@:-C01 C02 C03 C04 C05 C06 C07 C08 C09 C10 C11 C12 C13 C14 C15 C16 C17 C18 C19 C20}
cd /verif
for p in $IDS; do
  s=$(date +%s.%N)
  ./check $p --tier $T > /tmp/runall_$p.out 2>&1; rc=$?
  e=$(date +%s.%N)
  printf "%s rc=%s wall=%.1fs viol=%s known=%s\n" $p $rc $(echo "$e - $s" | bc) $(grep -c '^VIOLATION' /tmp/runall_$p.out) $(grep -c '^KNOWN-FINDING' /tmp/runall_$p.out)
done
