#!/bin/bash
# usage: confirm_seed.sh <worktree> <seed-name> <property>
# Confirms: mutated tree passes the 42 baseline tests; demo fails with the change and passes without.
set -u
WT=$1; NAME=$2; PROP=$3
OUT=/verif/seeded/$NAME
cd "$WT" || exit 2
git diff -- aiuti > /tmp/seed_$NAME.diff
[ -s /tmp/seed_$NAME.diff ] || { echo "no diff"; exit 2; }
T1=$(timeout 900 /venv/bin/python -m pytest -q -p no:cacheprovider --timeout=900 2>&1 | tail -1)
timeout 120 /venv/bin/python demo.py >/tmp/seed_$NAME.mut.out 2>&1; RC_MUT=$?
git stash -q -- aiuti
timeout 120 /venv/bin/python demo.py >/tmp/seed_$NAME.orig.out 2>&1; RC_ORIG=$?
git stash pop -q
echo "tests(mutated): $T1"; echo "demo rc mutated=$RC_MUT original=$RC_ORIG"
case "$T1" in *"2 failed, 42 passed"*) ;; *) echo "REJECT: baseline differs"; exit 1;; esac
[ $RC_MUT -ne 0 ] && [ $RC_ORIG -eq 0 ] || { echo "REJECT: demo does not discriminate"; exit 1; }
mkdir -p $OUT
cp /tmp/seed_$NAME.diff $OUT/patch.diff; cp demo.py $OUT/demo.py
/venv/bin/python - "$WT" "$OUT" "$PROP" "$T1" "$RC_MUT" "$RC_ORIG" <<'P'
import json,sys,os
wt,out,prop,t1,rm,ro=sys.argv[1:]
try: m=json.load(open(os.path.join(wt,'meta.json')))
except Exception: m={}
m.update({'property':prop,'confirmed':{'tests_on_mutated_tree':t1,'demo_rc_mutated':int(rm),'demo_rc_original':int(ro),
  'how':'tools/confirm_seed.sh in a scratch worktree: pytest on the mutated tree; demo.py with the change and with it stashed'}})
json.dump(m,open(os.path.join(out,'meta.json'),'w'),indent=1)
P
echo "KEPT $OUT"
