#!/bin/bash
# Applies every seeded change to a scratch worktree of /repo HEAD and runs the check that must catch it.
# Prints one line per seed; exit 0 iff every seed is caught (rc=1 from the check).
cd /verif; fail=0
grep -v '^#' seeded/EXPECTED.txt | while read seed chk; do
  [ -z "$seed" ] && continue
  out=$(timeout 3000 tools/run_seed.sh $seed $chk 2>&1 | tail -1 | cut -c1-160)
  case "$out" in *"rc=1"*) echo "CAUGHT  $out";; *) echo "MISSED  $out"; fail=1;; esac
done
exit $fail
