# usage: gen_seed_prompt.py <PROP> <suffix>  -> /tmp/prompts/<PROP><suffix>.txt (prompt for a seeding sub-agent working in /tmp/wt/<PROP><suffix>)
import json,glob,sys,re
P,suf=sys.argv[1],sys.argv[2]
tmpl=open('/verif/tools/seed_prompt_template.txt').read()
props={json.loads(l)['id']:json.loads(l) for l in open('/verif/properties.jsonl')}
d=props[P]
ideas=[]
for m in sorted(glob.glob(f'/verif/seeded/{P}-*/meta.json')):
    try: ideas.append(json.load(open(m)).get('summary','')[:260].replace('\n',' '))
    except Exception: pass
head=tmpl.split('Here is a semantic property')[0].replace('C16f',P+suf)
mid=f"""Here is a semantic property of the library that should hold:

  id: {P}
  title: {d['title']}
  statement: {d['statement']}
  quantified over: {d['quantifier']['text']}
  source files involved: {', '.join(d['anchors']['files'])}

"""
rest=tmpl.split('YOUR TASK:')[1]
rest='YOUR TASK:'+rest
rest=re.sub(r'Earlier attempts already used.*? \. \n', 'Earlier attempts already used the following ideas, so do something DIFFERENT from all of them (a different mechanism, ideally a different part of the code involved in the property): '+' || '.join(ideas)+' . \n', rest, flags=re.S)
rest=rest.replace('C16f',P+suf).replace('"property": "C16"',f'"property": "{P}"')
(__import__('os').makedirs('/tmp/prompts',exist_ok=True),open(f'/tmp/prompts/{P}{suf}.txt','w'))[1].write(head+mid+rest)
